package column

import "testing"

// D16a: after a row is re-keyed its old key must not resolve any more and must be insertable again.
func TestVerifD16aRekeyDropsOldKey(t *testing.T) {
	c := NewCollection()
	c.CreateColumn("k", ForKey())
	c.CreateColumn("n", ForInt())
	if err := c.InsertKey("old", func(r Row) error { r.SetInt("n", 1); return nil }); err != nil {
		t.Fatal(err)
	}
	if err := c.QueryKey("old", func(r Row) error { r.SetKey("new"); return nil }); err != nil {
		t.Fatal(err)
	}
	if err := c.QueryKey("old", func(r Row) error { return nil }); err == nil {
		t.Fatalf("old key still resolves after the row was re-keyed")
	}
	if err := c.InsertKey("old", func(r Row) error { r.SetInt("n", 2); return nil }); err != nil {
		t.Fatalf("old key cannot be inserted again: %v", err)
	}
	if c.Count() != 2 {
		t.Fatalf("count %d, want 2", c.Count())
	}
}
