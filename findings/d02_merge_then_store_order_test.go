package column

import (
	"testing"

	"github.com/kelindar/column/commit"
)

// D2 (known finding, not repaired): a size-changing string merge followed by a store to the same row in one
// transaction. The commit pass rewrites the merge as Skip and appends the merged value BEHIND the store; the
// primary ends on the store, a replica fed the emitted commit ends on the merged value.
func TestVerifD02MergeThenStoreSameRow(t *testing.T) {
	ch := make(commit.Channel, 64)
	merge := func(v, d string) string { return v + d }
	p := NewCollection(Options{Writer: ch})
	p.CreateColumn("s", ForString(WithMerge(merge)))
	r := NewCollection()
	r.CreateColumn("s", ForString(WithMerge(merge)))
	p.Insert(func(row Row) error { row.SetString("s", "a"); return nil })
	p.QueryAt(0, func(row Row) error {
		row.MergeString("s", "bcd")
		row.SetString("s", "Z")
		return nil
	})
	close(ch)
	for c := range ch {
		if err := r.Replay(c); err != nil {
			t.Fatal(err)
		}
	}
	var pv, rv string
	p.QueryAt(0, func(row Row) error { pv, _ = row.String("s"); return nil })
	r.QueryAt(0, func(row Row) error { rv, _ = row.String("s"); return nil })
	if pv != rv {
		t.Fatalf("primary holds %q, replica holds %q", pv, rv)
	}
}
