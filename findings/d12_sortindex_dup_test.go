package column

import "testing"

// D12: ascending iteration over a sorted index must visit rows with equal values too.
func TestVerifD12SortIndexEqualKeys(t *testing.T) {
	c := NewCollection()
	c.CreateColumn("s", ForString())
	c.CreateSortIndex("by_s", "s")
	for _, v := range []string{"b", "a", "b", "a", "c"} {
		v := v
		c.Insert(func(r Row) error { r.SetString("s", v); return nil })
	}
	var seen []string
	c.Query(func(txn *Txn) error {
		col := txn.String("s")
		return txn.Ascend("by_s", func(idx uint32) {
			v, _ := col.Get()
			seen = append(seen, v)
		})
	})
	if len(seen) != 5 {
		t.Fatalf("Ascend visited %d rows %v, want 5", len(seen), seen)
	}
	for i := 1; i < len(seen); i++ {
		if seen[i-1] > seen[i] {
			t.Fatalf("not ordered: %v", seen)
		}
	}
}
