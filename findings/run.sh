#!/bin/sh
# usage: findings/run.sh <file_test.go> <TestName> [repo]  — runs one scenario replay against the real code via -overlay
f=$(readlink -f "$1"); t="$2"; repo="${3:-/repo}"
pkg=.
race=
case "$(basename "$f")" in *_race_*) race=-race;; esac
case "$(basename "$f")" in commit_*) pkg=./commit;; esac
tmp=$(mktemp -d); trap 'rm -rf "$tmp"' EXIT
dst="$repo/zz_verif_finding_test.go"; [ "$pkg" = "./commit" ] && dst="$repo/commit/zz_verif_finding_test.go"
printf '{"Replace": {"%s": "%s"}}' "$dst" "$f" > "$tmp/ov.json"
cd "$repo" && GOFLAGS=-mod=mod GOPROXY=off GOSUMDB=off GOTOOLCHAIN=local go test $race -overlay "$tmp/ov.json" -vet=off -count=1 -timeout 120s -run "^$t\$" $pkg 2>&1
