package column

import (
	"sync"
	"testing"
)

// D17 (run with -race): values read inside an Ascend callback are read without the read latch of the row's block
// (the latch calls in Txn.Ascend are commented out), so they race with a concurrent commit to that block.
func TestVerifD17AscendReadsUnderLatch(t *testing.T) {
	c := NewCollection()
	c.CreateColumn("name", ForString())
	c.CreateColumn("n", ForInt())
	c.CreateSortIndex("sorted", "name")
	for i := 0; i < 200; i++ {
		c.Insert(func(r Row) error { r.SetString("name", string(rune('a'+i%26))); r.SetInt("n", i); return nil })
	}
	var wg sync.WaitGroup
	wg.Add(2)
	go func() {
		defer wg.Done()
		for k := 0; k < 300; k++ {
			c.Query(func(txn *Txn) error {
				n := txn.Int("n")
				return txn.Range(func(uint32) { n.Set(k) })
			})
		}
	}()
	go func() {
		defer wg.Done()
		for k := 0; k < 300; k++ {
			c.Query(func(txn *Txn) error {
				n := txn.Int("n")
				return txn.Ascend("sorted", func(uint32) { n.Get() })
			})
		}
	}()
	wg.Wait()
}
