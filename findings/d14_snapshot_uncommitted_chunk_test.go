package column

import (
	"bytes"
	"errors"
	"testing"
)

// D14: Snapshot must not panic when the fill list covers a block that was never committed
// (here: the only insert failed, its offset stays reserved until rollback/free).
func TestVerifD14SnapshotAfterFailedInsert(t *testing.T) {
	c := NewCollection()
	c.CreateColumn("n", ForInt())
	c.Query(func(txn *Txn) error {
		txn.Insert(func(r Row) error { return errors.New("no") })
		// still inside the transaction: offset 0 was reserved and freed; fill has one word, commits is empty
		return errors.New("rollback")
	})
	defer func() {
		if r := recover(); r != nil {
			t.Fatalf("Snapshot panicked: %v", r)
		}
	}()
	var buf bytes.Buffer
	if err := c.Snapshot(&buf); err != nil {
		t.Fatal(err)
	}
}
