package column

import "testing"

// D21: Union on a fresh transaction whose FIRST name does not exist: the union of the remaining indexes must be
// selected (a missing index is the empty set), not every live row.
func TestVerifD21UnionMissingFirst(t *testing.T) {
	c := NewCollection()
	c.CreateColumn("n", ForInt())
	c.CreateIndex("even", "n", func(r Reader) bool { return r.Int()%2 == 0 })
	for i := 0; i < 10; i++ {
		c.Insert(func(r Row) error { r.SetInt("n", i); return nil })
	}
	c.Query(func(txn *Txn) error {
		if n := txn.Union("missing", "even").Count(); n != 5 {
			t.Errorf("Union(missing, even) selects %d rows, want 5", n)
		}
		return nil
	})
	c.Query(func(txn *Txn) error {
		if n := txn.Union("even", "missing").Count(); n != 5 {
			t.Errorf("Union(even, missing) selects %d rows, want 5", n)
		}
		return nil
	})
}
