package column

import "testing"

// D22: a string merge whose merge function returns the delta itself (the default of ForString) stored a string that
// aliased the pooled transaction buffer: later transactions overwrote the stored value.
func TestVerifD22MergedStringIsPrivate(t *testing.T) {
	c := NewCollection()
	c.CreateColumn("name", ForString())
	c.CreateColumn("other", ForString())
	idx, _ := c.Insert(func(r Row) error { r.SetString("other", "-"); return nil })
	c.QueryAt(idx, func(r Row) error { r.MergeString("name", "Merlin"); return nil })
	for i := 0; i < 8; i++ {
		c.QueryAt(idx, func(r Row) error { r.SetString("other", "XXXXXXXXXXXXXXXXXXXXXXXX"); return nil })
	}
	c.QueryAt(idx, func(r Row) error {
		if v, _ := r.String("name"); v != "Merlin" {
			t.Errorf("name reads %q, stored \"Merlin\"", v)
		}
		return nil
	})
}
