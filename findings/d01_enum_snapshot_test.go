package column

import (
	"bytes"
	"testing"
)

// D1: an enum column beyond the first 16K block must survive snapshot/restore at the same offsets.
func TestVerifD01EnumSnapshotBeyondFirstBlock(t *testing.T) {
	src := NewCollection()
	src.CreateColumn("e", ForEnum())
	for i := 0; i < 20000; i++ {
		v := "a"
		if i >= 16384 {
			v = "b"
		}
		src.Insert(func(r Row) error { r.SetEnum("e", v); return nil })
	}
	var buf bytes.Buffer
	if err := src.Snapshot(&buf); err != nil {
		t.Fatal(err)
	}
	dst := NewCollection()
	dst.CreateColumn("e", ForEnum())
	if err := dst.Restore(&buf); err != nil {
		t.Fatal(err)
	}
	for _, idx := range []uint32{0, 5, 16384, 19999} {
		var want, got string
		src.QueryAt(idx, func(r Row) error { want, _ = r.Enum("e"); return nil })
		dst.QueryAt(idx, func(r Row) error { got, _ = r.Enum("e"); return nil })
		if want != got {
			t.Fatalf("offset %d: restored %q, original %q", idx, got, want)
		}
	}
}
