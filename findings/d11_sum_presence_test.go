package column

import "testing"

// D11: aggregates fold the value array under the selection only; a selected row that holds no value in the column
// takes part (Min sees its zero slot, Avg counts it).
func TestVerifD11AggregatesOverPresentOnly(t *testing.T) {
	c := NewCollection()
	c.CreateColumn("a", ForInt64())
	c.CreateColumn("b", ForInt64())
	c.Insert(func(r Row) error { r.SetInt64("a", 10); r.SetInt64("b", 1); return nil })
	c.Insert(func(r Row) error { r.SetInt64("a", 30); r.SetInt64("b", 1); return nil })
	c.Insert(func(r Row) error { r.SetInt64("b", 1); return nil }) // no value in a
	c.Query(func(txn *Txn) error {
		a := txn.Int64("a")
		if min, ok := a.Min(); !ok || min != 10 {
			t.Errorf("Min = %d,%v want 10 (the row without a value must not take part)", min, ok)
		}
		if avg := a.Avg(); avg != 20 {
			t.Errorf("Avg = %v want 20", avg)
		}
		return nil
	})
}
