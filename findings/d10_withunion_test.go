package column

import "testing"

// D10: With(a).WithUnion(b) must intersect the selection with b (here 1 row), not widen it to a ∪ b.
func TestVerifD10WithUnionSingleColumn(t *testing.T) {
	c := NewCollection()
	c.CreateColumn("a", ForBool())
	c.CreateColumn("b", ForBool())
	for i := 0; i < 4; i++ {
		i := i
		c.Insert(func(r Row) error {
			r.SetBool("a", i < 2)  // rows 0,1
			r.SetBool("b", i >= 1 && i <= 2) // rows 1,2
			return nil
		})
	}
	c.Query(func(txn *Txn) error {
		if n := txn.With("a").WithUnion("b").Count(); n != 1 {
			t.Fatalf("With(a).WithUnion(b) selected %d rows, want 1", n)
		}
		return nil
	})
}
