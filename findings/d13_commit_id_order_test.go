package column

import (
	"sync"
	"testing"

	"github.com/kelindar/column/commit"
)

type verifRecLogger struct {
	mu  sync.Mutex
	ids []uint64
}

func (l *verifRecLogger) Append(c commit.Commit) error {
	l.mu.Lock()
	l.ids = append(l.ids, c.ID)
	l.mu.Unlock()
	return nil
}

// D13: commits reach the logger inside the block latch, i.e. in apply order; their IDs must increase in that order.
func TestVerifD13CommitIDsIncreaseInApplyOrder(t *testing.T) {
	rec := &verifRecLogger{}
	c := NewCollection(Options{Writer: rec})
	c.CreateColumn("n", ForInt())
	c.Insert(func(r Row) error { r.SetInt("n", 0); return nil })
	var wg sync.WaitGroup
	for w := 0; w < 16; w++ {
		wg.Add(1)
		go func() {
			defer wg.Done()
			for i := 0; i < 3000; i++ {
				c.QueryAt(0, func(r Row) error { r.MergeInt("n", 1); return nil })
			}
		}()
	}
	wg.Wait()
	inv := 0
	for i := 1; i < len(rec.ids); i++ {
		if rec.ids[i] <= rec.ids[i-1] {
			inv++
		}
	}
	if inv > 0 {
		t.Fatalf("%d of %d commits reached block 0 with an id not above their predecessor's", inv, len(rec.ids))
	}
}
