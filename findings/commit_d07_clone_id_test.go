package commit

import "testing"

// D7: a cloned commit (what Channel delivers) must carry the commit ID.
func TestVerifD07CloneKeepsID(t *testing.T) {
	b := NewBuffer(8)
	b.Reset("x")
	b.PutInt64(Put, 1, 7)
	c := Commit{ID: 42, Chunk: 0, Updates: []*Buffer{b}}
	ch := make(Channel, 1)
	ch.Append(c)
	if got := (<-ch).ID; got != 42 {
		t.Fatalf("commit delivered through Channel has ID %d, want 42", got)
	}
}
