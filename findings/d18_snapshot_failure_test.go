package column

import (
	"bytes"
	"errors"
	"os"
	"testing"
)

type verifFailWriter struct{ left int }

func (w *verifFailWriter) Write(p []byte) (int, error) {
	if w.left < len(p) {
		return 0, errors.New("disk full")
	}
	w.left -= len(p)
	return len(p), nil
}

func verifOpenFDs() int {
	d, _ := os.ReadDir("/proc/self/fd")
	return len(d)
}

// D18: a failed snapshot reports the error, a later snapshot to a healthy writer succeeds, and neither leaves
// descriptors behind.
func TestVerifD18FailedSnapshotLeavesCollectionUsable(t *testing.T) {
	c := NewCollection()
	c.CreateColumn("n", ForInt())
	for i := 0; i < 100; i++ {
		c.Insert(func(r Row) error { r.SetInt("n", 1); return nil })
	}
	before := verifOpenFDs()
	if err := c.Snapshot(&verifFailWriter{left: 10}); err == nil {
		t.Fatalf("failing writer: no error")
	}
	for i := 0; i < 10; i++ {
		var buf bytes.Buffer
		if err := c.Snapshot(&buf); err != nil {
			t.Fatalf("healthy snapshot after a failed one: %v", err)
		}
	}
	if after := verifOpenFDs(); after > before {
		t.Fatalf("open descriptors %d -> %d", before, after)
	}
}
