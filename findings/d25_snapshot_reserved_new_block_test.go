package column

import (
	"bytes"
	"testing"
)

// D25: an insert in flight has reserved the first offset of a new block (fill list covers it, no column has been
// grown to it): Snapshot and CreateIndex beside it must neither panic nor fail, and the snapshot restores the
// committed rows.
func TestVerifD25SnapshotBesideInsertIntoNewBlock(t *testing.T) {
	c := NewCollection()
	c.CreateColumn("n", ForInt64())
	c.Query(func(txn *Txn) error {
		for i := 0; i < 16384; i++ {
			txn.Insert(func(row Row) error { row.SetInt64("n", 1); return nil })
		}
		return nil
	})
	var buf bytes.Buffer
	_, err := c.Insert(func(row Row) error {
		defer func() {
			if r := recover(); r != nil {
				t.Fatalf("panicked beside an insert that reserved offset %d: %v", row.txn.cursor, r)
			}
		}()
		if err := c.Snapshot(&buf); err != nil {
			t.Fatalf("Snapshot: %v", err)
		}
		if err := c.CreateIndex("one", "n", func(r Reader) bool { return r.Int() == 1 }); err != nil {
			t.Fatalf("CreateIndex: %v", err)
		}
		row.SetInt64("n", 2)
		return nil
	})
	if err != nil {
		t.Fatal(err)
	}
	r := NewCollection()
	r.CreateColumn("n", ForInt64())
	if err := r.Restore(&buf); err != nil {
		t.Fatalf("Restore: %v", err)
	}
	sum := int64(0)
	r.Query(func(txn *Txn) error { sum = txn.Int64("n").Sum(); return nil })
	if r.Count() != 16384 || sum != 16384 {
		t.Fatalf("restored %d rows with sum %d, want the 16384 rows committed when the snapshot was taken (sum 16384)", r.Count(), sum)
	}
	n := 0
	c.Query(func(txn *Txn) error { n = txn.With("one").Count(); return nil })
	if n != 16384 {
		t.Fatalf("index back-filled beside the insert selects %d rows, want 16384", n)
	}
}
