package column

import (
	"bytes"
	"errors"
	"testing"
)

// D15 (known finding, not repaired): an insert in flight has reserved its offset by setting the offset's bit in the
// fill list; a snapshot taken meanwhile writes an Insert for it. The transaction rolls back: the restored collection
// holds a row the primary never committed.
func TestVerifD15SnapshotBesideInsertThatRollsBack(t *testing.T) {
	c := NewCollection()
	c.CreateColumn("n", ForInt64())
	c.Insert(func(row Row) error { row.SetInt64("n", 1); return nil })
	var buf bytes.Buffer
	c.Insert(func(row Row) error {
		if err := c.Snapshot(&buf); err != nil {
			t.Fatal(err)
		}
		return errors.New("rolled back")
	})
	r := NewCollection()
	r.CreateColumn("n", ForInt64())
	if err := r.Restore(&buf); err != nil {
		t.Fatal(err)
	}
	if r.Count() != c.Count() {
		t.Fatalf("restored %d rows, the primary has committed %d", r.Count(), c.Count())
	}
}
