package column

import "testing"

// D5: a merge into an offset whose previous occupant was deleted must start from zero, not from the stale value.
func TestVerifD05MergeIntoReusedOffset(t *testing.T) {
	c := NewCollection()
	c.CreateColumn("n", ForInt())
	idx, _ := c.Insert(func(r Row) error { r.SetInt("n", 10); return nil })
	c.DeleteAt(idx)
	idx2, _ := c.Insert(func(r Row) error { r.MergeInt("n", 5); return nil })
	if idx2 != idx {
		t.Skipf("offset not reused (%d vs %d)", idx2, idx)
	}
	c.QueryAt(idx2, func(r Row) error {
		if v, _ := r.Int("n"); v != 5 {
			t.Fatalf("merge into a reused offset read %d, want 5", v)
		}
		return nil
	})
}
