package column

import (
	"errors"
	"testing"
)

// D26: a failed InsertKey leaves its key in the cell of the row it queues for removal; an UpsertKey of the same key
// in the same transaction creates another row, and removing the first row must not take the key's lookup entry.
func TestVerifD26FailedInsertKeyThenUpsert(t *testing.T) {
	c := NewCollection()
	c.CreateColumn("k", ForKey())
	c.CreateColumn("n", ForInt64())
	err := c.Query(func(txn *Txn) error {
		if err := txn.InsertKey("a", func(Row) error { return errors.New("no") }); err == nil {
			t.Fatal("InsertKey with a failing callback reported success")
		}
		return txn.UpsertKey("a", func(row Row) error { row.SetInt64("n", 5); return nil })
	})
	if err != nil {
		t.Fatal(err)
	}
	if c.Count() != 1 {
		t.Fatalf("Count() = %d, want 1", c.Count())
	}
	var n int64
	if err := c.QueryKey("a", func(row Row) error { n, _ = row.Int64("n"); return nil }); err != nil || n != 5 {
		t.Fatalf("QueryKey(a) = %v, n=%d: the upsert reported success, the key must resolve to its row (n=5)", err, n)
	}
	if err := c.InsertKey("a", func(Row) error { return nil }); err == nil {
		t.Fatal("InsertKey(a) succeeded although a live row holds the key")
	}
}
