package column

import "testing"

// D9: a column created on a collection whose few live rows sit in a later 16K block must be usable for them.
func TestVerifD09CreateColumnOnSparseCollection(t *testing.T) {
	c := NewCollection()
	c.CreateColumn("a", ForInt())
	for i := 0; i < 16384+5; i++ {
		c.Insert(func(r Row) error { r.SetInt("a", 1); return nil })
	}
	c.Query(func(txn *Txn) error { // leave only the 5 rows of block 1
		return txn.Range(func(idx uint32) {
			if idx < 16384 {
				txn.DeleteAt(idx)
			}
		})
	})
	if err := c.CreateColumn("b", ForInt()); err != nil {
		t.Fatal(err)
	}
	defer func() {
		if r := recover(); r != nil {
			t.Fatalf("write to the new column panicked: %v", r)
		}
	}()
	c.QueryAt(16386, func(r Row) error { r.SetInt("b", 7); return nil })
	c.QueryAt(16386, func(r Row) error {
		if v, ok := r.Int("b"); !ok || v != 7 {
			t.Fatalf("read back %v %v, want 7", v, ok)
		}
		return nil
	})
}
