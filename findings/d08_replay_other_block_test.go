package column

import (
	"testing"

	"github.com/kelindar/column/commit"
)

// D8: replaying only the FIRST commit of a transaction that spanned two blocks must not change the other block.
func TestVerifD08ReplayTouchesOnlyItsBlock(t *testing.T) {
	ch := make(commit.Channel, 40000)
	primary := NewCollection(Options{Writer: ch})
	primary.CreateColumn("n", ForInt())
	replica := NewCollection()
	replica.CreateColumn("n", ForInt())
	for i := 0; i < 16384+1; i++ { // rows in block 0 and one row in block 1
		primary.Insert(func(r Row) error { r.SetInt("n", 1); return nil })
	}
	for len(ch) > 0 { // bring the replica up to date
		replica.Replay(<-ch)
	}
	primary.Query(func(txn *Txn) error { // one transaction touching both blocks
		txn.QueryAt(0, func(r Row) error { r.SetInt("n", 7); return nil })
		txn.QueryAt(16384, func(r Row) error { r.SetInt("n", 9); return nil })
		return nil
	})
	first := <-ch // the commit of block 0 only
	if first.Chunk != 0 {
		t.Skip("unexpected emission order")
	}
	replica.Replay(first)
	replica.QueryAt(16384, func(r Row) error {
		if v, _ := r.Int("n"); v != 1 {
			t.Fatalf("replaying the commit of block 0 changed block 1: row 16384 reads %d, want 1", v)
		}
		return nil
	})
}
