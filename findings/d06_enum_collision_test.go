package column

import (
	"encoding/binary"
	"testing"

	"github.com/zeebo/xxh3"
)

// D6: enum values are interned by the low 32 bits of their xxh3 hash only; two different strings with equal low
// 32 bits read back as each other. The pair is found by a birthday search (about 2^17 candidates).
func TestVerifD06EnumCollision(t *testing.T) {
	seen := map[uint32]string{}
	var a, b string
	var buf [8]byte
	for i := uint64(0); ; i++ {
		binary.LittleEndian.PutUint64(buf[:], i)
		s := string(buf[:])
		h := uint32(xxh3.HashString(s))
		if o, ok := seen[h]; ok {
			a, b = o, s
			break
		}
		seen[h] = s
	}
	c := NewCollection()
	c.CreateColumn("e", ForEnum())
	i1, _ := c.Insert(func(r Row) error { r.SetEnum("e", a); return nil })
	i2, _ := c.Insert(func(r Row) error { r.SetEnum("e", b); return nil })
	c.QueryAt(i1, func(r Row) error {
		if v, _ := r.Enum("e"); v != a {
			t.Errorf("row 1 reads %q, stored %q", v, a)
		}
		return nil
	})
	c.QueryAt(i2, func(r Row) error {
		if v, _ := r.Enum("e"); v != b {
			t.Errorf("row 2 reads %q, stored %q", v, b)
		}
		return nil
	})
}
