package column

import (
	"errors"
	"testing"
)

// D3: a rolled-back transaction that contained a successful insert keeps the reserved offset: Count and Range see a
// row that was never committed.
func TestVerifD03RollbackFreesReservedOffset(t *testing.T) {
	c := NewCollection()
	c.CreateColumn("n", ForInt())
	c.Insert(func(r Row) error { r.SetInt("n", 1); return nil })
	before := c.Count()
	c.Query(func(txn *Txn) error {
		txn.Insert(func(r Row) error { r.SetInt("n", 2); return nil })
		return errors.New("abort")
	})
	if c.Count() != before {
		t.Errorf("Count %d after a rolled-back transaction, %d before it", c.Count(), before)
	}
	rows := 0
	c.Query(func(txn *Txn) error { return txn.Range(func(uint32) { rows++ }) })
	if rows != before {
		t.Errorf("Range visits %d rows after a rolled-back transaction, %d before it", rows, before)
	}
}
