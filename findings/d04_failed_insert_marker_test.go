package column

import (
	"errors"
	"testing"
)

// D4: an insert whose callback fails, inside a transaction that then commits, leaves its insert marker (and the
// writes the callback made before failing) in the transaction's buffers: the commit brings the row to life.
func TestVerifD04FailedInsertLeavesNoRow(t *testing.T) {
	c := NewCollection()
	c.CreateColumn("n", ForInt())
	c.Query(func(txn *Txn) error {
		_, err := txn.Insert(func(r Row) error { r.SetInt("n", 7); return errors.New("no") })
		if err == nil {
			t.Fatalf("insert should have failed")
		}
		return nil // commit
	})
	if c.Count() != 0 {
		t.Errorf("Count %d after a failed insert in a committed transaction, want 0", c.Count())
	}
	rows := 0
	c.Query(func(txn *Txn) error { return txn.Range(func(uint32) { rows++ }) })
	if rows != 0 {
		t.Errorf("Range visits %d rows, want 0", rows)
	}
}
