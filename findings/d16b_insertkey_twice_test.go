package column

import "testing"

// D16b: two InsertKey of one key inside one transaction both succeed (existence is checked against the committed
// table only): two live rows hold the key.
func TestVerifD16bInsertKeyTwiceInOneTransaction(t *testing.T) {
	c := NewCollection()
	c.CreateColumn("k", ForKey())
	c.CreateColumn("n", ForInt())
	var e1, e2 error
	c.Query(func(txn *Txn) error {
		e1 = txn.InsertKey("a", func(r Row) error { r.SetInt("n", 1); return nil })
		e2 = txn.InsertKey("a", func(r Row) error { r.SetInt("n", 2); return nil })
		return nil
	})
	if e1 == nil && e2 == nil {
		t.Errorf("both InsertKey(\"a\") succeeded in one transaction")
	}
	if c.Count() != 1 {
		t.Errorf("Count %d, want 1 row for one key", c.Count())
	}
}
