package column

import "testing"

// D24: a transaction that writes a row and then deletes it: the delete markers are applied before the column updates,
// so the write is applied to the dead row and its value is present in the freed slot; a new row that reuses the
// offset without setting the column exposes the previous occupant's value.
func TestVerifD24UpdateThenDeleteLeavesNothing(t *testing.T) {
	c := NewCollection()
	c.CreateColumn("n", ForInt())
	c.CreateColumn("m", ForInt())
	idx, _ := c.Insert(func(r Row) error { r.SetInt("n", 1); r.SetInt("m", 1); return nil })
	c.Query(func(txn *Txn) error {
		txn.QueryAt(idx, func(r Row) error { r.SetInt("n", 42); return nil })
		txn.DeleteAt(idx)
		return nil
	})
	if c.Count() != 0 {
		t.Fatalf("count %d, want 0", c.Count())
	}
	idx2, _ := c.Insert(func(r Row) error { r.SetInt("m", 2); return nil }) // does not set n
	if idx2 != idx {
		t.Skipf("offset not reused (%d vs %d)", idx2, idx)
	}
	c.QueryAt(idx2, func(r Row) error {
		if v, ok := r.Int("n"); ok {
			t.Errorf("new row at the reused offset reads n=%d, want no value", v)
		}
		return nil
	})
}
