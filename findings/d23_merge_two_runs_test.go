package column

import "testing"

// D23: one transaction merging twice into the same row of block 0 with a merge into another block in between (two
// runs of block 0 in the buffer), on a string column whose merge changes the length: the second merge was lost,
// because the pass over the last run also read the store the first run's rewrite had appended meanwhile.
func TestVerifD23MergeInTwoRunsOfOneBlock(t *testing.T) {
	c := NewCollection()
	c.CreateColumn("s", ForString(WithMerge(func(v, d string) string { return v + d })))
	for i := 0; i < 16390; i++ {
		c.Insert(func(r Row) error { r.SetString("s", "."); return nil })
	}
	c.Query(func(txn *Txn) error {
		s := txn.String("s")
		txn.QueryAt(3, func(Row) error { s.Merge("x"); return nil })
		txn.QueryAt(16385, func(Row) error { s.Merge("q"); return nil })
		txn.QueryAt(3, func(Row) error { s.Merge("y"); return nil })
		return nil
	})
	c.QueryAt(3, func(r Row) error {
		if v, _ := r.String("s"); v != ".xy" {
			t.Errorf("row 3 reads %q, want \".xy\" (both merges applied once, in order)", v)
		}
		return nil
	})
	c.QueryAt(16385, func(r Row) error {
		if v, _ := r.String("s"); v != ".q" {
			t.Errorf("row 16385 reads %q, want \".q\"", v)
		}
		return nil
	})
}
