package engine

import (
	"encoding/json"
	"fmt"
	"go/types"
	"os"
	"os/exec"
	"path/filepath"
	"sort"
	"strconv"
	"strings"
	"time"

	"govc/smt"
)

// TryReplay attempts to reproduce a failed obligation on the real code: the harness is an executable Go function,
// so the solver's model of its inputs is turned into literal arguments and the harness is run as an in-package test
// (go test -overlay: nothing is written into the repository). It reports whether the same obligation failed at run
// time (the assertion label was recorded, or a run-time panic occurred for a safety obligation).
func TryReplay(w *World, r *HarnessResult, o *Obligation, replayPath string) (bool, string) {
	note := func(s string) (bool, string) {
		appendFile(replayPath, "replay: "+s+"\n")
		return false, s
	}
	if o.failQ == nil || r.engine == nil {
		return note("no term-level query kept for this obligation")
	}
	e := r.engine
	c := e.C
	fn := r.Harness.Fn
	replayImports, replayPkg = map[string]bool{}, fn.Pkg.Pkg
	if fn.Signature.Recv() != nil || fn.TypeParams().Len() > 0 || len(fn.TypeArgs()) > 0 {
		return note("harness shape not supported by the replay generator (method or generic)")
	}
	type slot struct {
		name  string
		typ   types.Type
		kind  string // scalar | bool | bytes | string | slice
		elem  types.Type
		leafs []*smt.Term
	}
	var slots []slot
	li := 0
	for _, p := range fn.Params {
		lv := e.ly.of(p.Type())
		leaves := make([]*smt.Term, len(lv))
		for i := range lv {
			leaves[i] = o.Inputs[li+i].Term
		}
		li += len(lv)
		s := slot{name: p.Name(), typ: p.Type(), leafs: leaves}
		switch u := p.Type().Underlying().(type) {
		case *types.Basic:
			switch {
			case u.Info()&types.IsBoolean != 0:
				s.kind = "bool"
			case u.Info()&types.IsString != 0:
				s.kind = "string"
			case u.Info()&types.IsInteger != 0:
				s.kind = "scalar"
			default:
				return note("parameter " + p.Name() + " of type " + p.Type().String() + " not supported by the replay generator")
			}
		case *types.Slice:
			if st, ok := u.Elem().Underlying().(*types.Struct); ok {
				for i := 0; i < st.NumFields(); i++ {
					fb, ok := st.Field(i).Type().Underlying().(*types.Basic)
					if !ok || fb.Info()&types.IsInteger == 0 {
						return note("parameter " + p.Name() + " of type " + p.Type().String() + " not supported by the replay generator")
					}
				}
				s.kind, s.elem = "slice", u.Elem()
				break
			}
			b, ok := u.Elem().Underlying().(*types.Basic)
			if !ok || b.Info()&types.IsInteger == 0 {
				return note("parameter " + p.Name() + " of type " + p.Type().String() + " not supported by the replay generator")
			}
			s.kind, s.elem = "slice", u.Elem()
		default:
			return note("parameter " + p.Name() + " of type " + p.Type().String() + " not supported by the replay generator")
		}
		slots = append(slots, s)
	}
	// second solve: small lengths, and the contents of the input slices
	const maxElems = 48
	var res smt.Result
	var q2 *smt.Query
	solved := false
	for _, bound := range []uint64{8, maxElems} {
		q2 = &smt.Query{Asserts: append([]*smt.Term{}, o.failQ.Asserts...)}
		for _, s := range slots {
			switch s.kind {
			case "slice", "string":
				q2.Asserts = append(q2.Asserts, c.Ule(s.leafs[2], c.Const(bound, 64)))
				if s.kind == "slice" {
					q2.Asserts = append(q2.Asserts, c.Ule(s.leafs[3], c.Const(bound+8, 64)))
				}
			}
		}
		for _, s := range slots {
			q2.Values = append(q2.Values, s.leafs...)
			if s.kind == "slice" || s.kind == "string" {
				var elem types.Type = types.Typ[types.Uint8]
				if s.kind == "slice" {
					elem = s.elem
				}
				for i := uint64(0); i < bound; i++ {
					for j := range e.ly.of(elem) {
						in := e.initNode(elem, j)
						q2.Values = append(q2.Values, c.App(in.uf, s.leafs[0], c.Add(s.leafs[1], c.Const(i, 64))))
					}
				}
			}
		}
		tmp, err := os.MkdirTemp("", "govc-replay-")
		if err != nil {
			return note(err.Error())
		}
		res = smt.SolveText(c.Print(q2, false), "", len(q2.Values), smt.DefaultSolvers(20)[:1], tmp, "replay", 20, 1)
		os.RemoveAll(tmp)
		if res.Status == smt.Sat {
			solved = true
			// decode with this bound
			vi := 0
			var args []string
			for _, s := range slots {
				get := func() uint64 {
					v, _ := smt.ParseBV(res.Values[vi])
					vi++
					return v
				}
				switch s.kind {
				case "scalar":
					v := get()
					args = append(args, goIntLit(s.typ, v))
				case "bool":
					args = append(args, fmt.Sprint(get() != 0))
				case "string", "slice":
					get() // base
					get() // off
					n := get()
					capv := n
					if s.kind == "slice" {
						capv = get()
						if capv < n {
							capv = n
						}
					}
					nl := 1
					if s.kind == "slice" {
						nl = len(e.ly.of(s.elem))
					}
					elems := make([]uint64, int(bound)*nl)
					for i := range elems {
						elems[i] = get()
					}
					if n > bound {
						n = bound
					}
					if s.kind == "string" {
						bs := make([]byte, n)
						for i := range bs {
							bs[i] = byte(elems[i])
						}
						args = append(args, fmt.Sprintf("%q", string(bs)))
					} else {
						var parts []string
						for i := uint64(0); i < n; i++ {
							if st, ok := s.elem.Underlying().(*types.Struct); ok {
								var fs []string
								for j := 0; j < st.NumFields(); j++ {
									fs = append(fs, goIntLit(st.Field(j).Type(), elems[int(i)*nl+j]))
								}
								parts = append(parts, "{"+strings.Join(fs, ", ")+"}")
							} else {
								parts = append(parts, goIntLit(s.elem, elems[i]))
							}
						}
						ts := types.TypeString(s.typ, replayQualifier)
						es := types.TypeString(s.elem, replayQualifier)
						args = append(args, fmt.Sprintf("append(make(%s, 0, %d), []%s{%s}...)", ts, capv, es, strings.Join(parts, ", ")))
					}
				}
			}
			return runReplay(w, r, o, replayPath, args)
		}
	}
	if !solved {
		return note("no model with small input lengths (" + res.Status.String() + "); not replayed")
	}
	return false, ""
}

// replayImports collects the packages the generated literals refer to (reset per replay).
var replayImports = map[string]bool{}
var replayPkg *types.Package

func replayQualifier(p *types.Package) string {
	if p == nil || p == replayPkg {
		return ""
	}
	replayImports[p.Path()] = true
	return p.Name()
}

func goIntLit(t types.Type, v uint64) string {
	b := t.Underlying().(*types.Basic)
	w := basicWidth(b)
	name := types.TypeString(t, replayQualifier)
	if b.Info()&types.IsUnsigned != 0 {
		if w < 64 {
			v &= (uint64(1) << uint(w)) - 1
		}
		return fmt.Sprintf("%s(%d)", name, v)
	}
	var s int64
	switch w {
	case 8:
		s = int64(int8(v))
	case 16:
		s = int64(int16(v))
	case 32:
		s = int64(int32(v))
	default:
		s = int64(v)
	}
	return fmt.Sprintf("%s(%d)", name, s)
}

func runReplay(w *World, r *HarnessResult, o *Obligation, replayPath string, args []string) (bool, string) {
	fn := r.Harness.Fn
	pkgPath := fn.Pkg.Pkg.Path()
	dir := w.RepoDir
	if dir == "" {
		dir = "/repo"
	}
	if strings.HasSuffix(pkgPath, "/commit") {
		dir = filepath.Join(dir, "commit")
	}
	label := o.Name[strings.Index(o.Name, "#")+1:]
	if i := strings.Index(label, "@"); i >= 0 {
		label = label[:i]
	}
	isSafety := o.Kind == KindSafety || o.Kind == KindPanic
	src := fmt.Sprintf(`package %s

import (
	"fmt"
	"testing"
%s)

// Generated by govc: replays the solver's counterexample for obligation
//   %s
// by running the (executable) contract on the real code.
func TestGovcReplay(t *testing.T) {
	vFailures = nil
	var panicked interface{}
	func() {
		defer func() { panicked = recover() }()
		%s(%s)
	}()
	if _, ok := panicked.(vAssumeFailed); ok {
		fmt.Println("GOVC-REPLAY: inputs do not satisfy an assumption of the contract at run time (not reproduced)")
		return
	}
	if panicked != nil {
		fmt.Printf("GOVC-REPLAY: PANIC %%v\n", panicked)
		if %v {
			t.Fatalf("reproduced: run-time panic %%v", panicked)
		}
		return
	}
	for _, f := range vFailures {
		if f == %q {
			t.Fatalf("reproduced: assertion %%q is false on the real code", f)
		}
	}
	fmt.Printf("GOVC-REPLAY: not reproduced (failed assertions: %%v)\n", vFailures)
}
`, fn.Pkg.Pkg.Name(), extraImports(), o.Name, fn.Name(), strings.Join(args, ", "), isSafety, label)
	tmp, err := os.MkdirTemp("", "govc-replay-")
	if err != nil {
		return false, err.Error()
	}
	defer os.RemoveAll(tmp)
	testFile := filepath.Join(tmp, "zz_govc_replay_test.go")
	os.WriteFile(testFile, []byte(src), 0o644)
	ov, _ := json.Marshal(map[string]map[string]string{"Replace": {filepath.Join(dir, "zz_govc_replay_test.go"): testFile}})
	ovFile := filepath.Join(tmp, "ov.json")
	os.WriteFile(ovFile, ov, 0o644)
	cmd := exec.Command("go", "test", "-tags", "verif", "-overlay", ovFile, "-vet=off", "-count=1", "-timeout", "60s", "-run", "^TestGovcReplay$", ".")
	cmd.Dir = dir
	cmd.Env = append(os.Environ(), "GOFLAGS=-mod=mod", "GOPROXY=off", "GOSUMDB=off", "GOTOOLCHAIN=local")
	done := make(chan struct{})
	var out []byte
	go func() { out, _ = cmd.CombinedOutput(); close(done) }()
	select {
	case <-done:
	case <-time.After(180 * time.Second):
		if cmd.Process != nil {
			cmd.Process.Kill()
		}
		<-done
	}
	text := string(out)
	reproduced := strings.Contains(text, "reproduced: ") && strings.Contains(text, "--- FAIL: TestGovcReplay")
	appendFile(replayPath, "\nreplay on the real code (go test -tags verif -overlay, harness called with the model's inputs):\n  "+
		fn.Name()+"("+strings.Join(args, ", ")+")\n"+text+"\n--- generated test ---\n"+src)
	return reproduced, ""
}

func appendFile(path, s string) {
	f, err := os.OpenFile(path, os.O_APPEND|os.O_WRONLY|os.O_CREATE, 0o644)
	if err != nil {
		return
	}
	defer f.Close()
	f.WriteString(s)
}

func extraImports() string {
	var ps []string
	for p := range replayImports {
		ps = append(ps, p)
	}
	sort.Strings(ps)
	s := ""
	for _, p := range ps {
		s += "\t" + strconv.Quote(p) + "\n"
	}
	return s
}
