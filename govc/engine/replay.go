package engine

// TryReplay attempts to reproduce a failed obligation on the real code by running the harness
// function with the model's inputs as an in-package test (go test -overlay). Returns whether it reproduced.
func TryReplay(w *World, r *HarnessResult, o *Obligation, replayPath string) (bool, string) {
	return false, "replay generator not available for this harness shape"
}
