package engine

import (
	"fmt"
	"go/ast"
	"go/token"
	"os"
	"sort"
	"strconv"
	"strings"
	"sync"

	"golang.org/x/tools/go/packages"
	"golang.org/x/tools/go/ssa"
	"golang.org/x/tools/go/ssa/ssautil"
)

// World is the loaded program plus the contract tables read from the verif-tagged files.
type World struct {
	Fset *token.FileSet
	Prog *ssa.Program
	Pkgs []*ssa.Package
	Repo map[string]bool // package paths that belong to /repo

	Harnesses []*Harness
	Contracts map[string]*Contract // by target short name
	Models    map[string]*ssa.Function
	ModelPkg  map[string]string // model target -> package path where the model was declared (its scope)
	Loops     map[string]*LoopSpec
	MayPanic  map[string]string
	Inline    map[string]bool // dependency functions whose real bodies may be inlined (prefix match on short name)

	MaxSteps      int
	MaxDepth      int
	DefaultUnroll int
	GenSeconds    int
	TmpDir        string
	RepoDir       string // the tree that was loaded (replays run there)

	mu      sync.Mutex
	fnInfos map[*ssa.Function]*fnInfo
	fnIDs   map[*ssa.Function]uint64
	byName  map[string]*ssa.Function
}

// Harness is a function the engine executes from fully symbolic inputs: a lemma, or a contract wrapper in verify mode.
type Harness struct {
	Name     string
	Fn       *ssa.Function
	Kind     string // lemma | contract | loop
	Props    []string
	Target   string            // contract/loop target
	Expect   map[string]string // label -> known finding id expected to fail
	Bounded  string
	Contract *Contract
	Real     map[string]bool // targets whose use-contracts are switched off in this harness (the real body runs)
	Use      map[string]bool // opt-in use-contracts switched on in this harness
	Paths    bool            // path-sensitive execution (no joins); infeasible paths are pruned with the solver
}

type Contract struct {
	Target     string
	Fn         *ssa.Function
	UseAtCalls bool
	OptIn      bool   // use-contract applied only where a harness asks for it (use=<target>)
	Pkg        string // declaring package: use-contracts apply to harnesses of that package
	Props      []string
}

type LoopSpec struct {
	Key      string
	Unroll   int
	Bounded  bool
	Contract *ssa.Function
	Props    []string
}

// Load type-checks /repo with the verif tag and reads directives.
func Load(dir string, tags string) (*World, error) {
	cfg := &packages.Config{
		Mode:       packages.LoadAllSyntax,
		Dir:        dir,
		BuildFlags: []string{"-tags=" + tags},
		Env:        append(os.Environ(), "GOFLAGS=-mod=mod", "GOPROXY=off", "GOSUMDB=off", "GOTOOLCHAIN=local", "GOWORK=off"),
	}
	pkgs, err := packages.Load(cfg, "./...")
	if err != nil {
		return nil, err
	}
	var errs []string
	packages.Visit(pkgs, nil, func(p *packages.Package) {
		for _, e := range p.Errors {
			errs = append(errs, e.Error())
		}
	})
	if len(errs) > 0 {
		return nil, fmt.Errorf("load errors:\n%s", strings.Join(errs, "\n"))
	}
	var roots []*packages.Package
	for _, p := range pkgs {
		if strings.Contains(p.PkgPath, "/examples/") || strings.HasSuffix(p.PkgPath, "/codegen") {
			continue
		}
		roots = append(roots, p)
	}
	prog, spkgs := ssautil.AllPackages(roots, ssa.InstantiateGenerics)
	w := &World{
		Fset: prog.Fset, Prog: prog, Repo: map[string]bool{}, RepoDir: dir,
		Contracts: map[string]*Contract{}, Models: map[string]*ssa.Function{}, ModelPkg: map[string]string{}, Loops: map[string]*LoopSpec{},
		MayPanic: map[string]string{}, Inline: map[string]bool{},
		MaxSteps: 400000, MaxDepth: 24, DefaultUnroll: 3, GenSeconds: 240,
		fnInfos: map[*ssa.Function]*fnInfo{}, fnIDs: map[*ssa.Function]uint64{}, byName: map[string]*ssa.Function{},
	}
	for i, sp := range spkgs {
		if sp == nil {
			continue
		}
		w.Repo[roots[i].PkgPath] = true
		sp.SetDebugMode(true)
		w.Pkgs = append(w.Pkgs, sp)
	}
	prog.Build()
	for fn := range ssautil.AllFunctions(prog) {
		w.byName[shortFn(fn)] = fn
	}
	// directives
	for i, p := range roots {
		if spkgs[i] == nil {
			continue
		}
		for _, f := range p.Syntax {
			fname := prog.Fset.Position(f.Pos()).Filename
			if !strings.Contains(fname, "verif_") {
				continue
			}
			if err := w.readDirectives(spkgs[i], f); err != nil {
				return nil, err
			}
		}
	}
	sort.Slice(w.Harnesses, func(i, j int) bool { return w.Harnesses[i].Name < w.Harnesses[j].Name })
	return w, nil
}

// FuncByName finds a function by its short name.
func (w *World) FuncByName(n string) *ssa.Function { return w.byName[n] }

func (w *World) mayInline(fn *ssa.Function) bool {
	pkg := fn.Package()
	o := fn
	for pkg == nil && o != nil {
		if o.Origin() != nil {
			o = o.Origin()
		} else if o.Parent() != nil {
			o = o.Parent()
		} else {
			break
		}
		pkg = o.Package()
	}
	if pkg == nil {
		return true // synthetic wrappers
	}
	if w.Repo[pkg.Pkg.Path()] {
		return true
	}
	n := shortFn(fn)
	for p := range w.Inline {
		if strings.HasPrefix(n, p) {
			return true
		}
	}
	return false
}

// directive syntax (comment lines starting with //@ ), either in a function's doc comment or free-standing:
//
//	//@ lemma props=C05,C01 [expect=label:KFid,...]
//	//@ contract target=commit.(*Buffer).writeChunk props=C05 [use]
//	//@ loop target=column.makeInt16s$2 index=0 props=C01            (doc comment of the loop contract function)
//	//@ unroll commit.(*Buffer).writeOffset#0 5 [bounded]
//	//@ model bitmap.(*Bitmap).And                                    (doc comment of the model function)
//	//@ maypanic column.readerFor[...] reason...
//	//@ inline bitmap.                                               (prefix of dependency functions inlined from their real bodies)
func (w *World) readDirectives(pkg *ssa.Package, f *ast.File) error {
	funcDocs := map[*ast.CommentGroup]*ast.FuncDecl{}
	for _, d := range f.Decls {
		if fd, ok := d.(*ast.FuncDecl); ok && fd.Doc != nil {
			funcDocs[fd.Doc] = fd
		}
	}
	for _, cg := range f.Comments {
		for _, cm := range cg.List {
			line := strings.TrimSpace(cm.Text)
			if strings.HasPrefix(line, "// @") { // gofmt rewrites //@ in doc comments
				line = "//@" + line[4:]
			}
			if !strings.HasPrefix(line, "//@") {
				continue
			}
			fields := strings.Fields(strings.TrimSpace(line[3:]))
			if len(fields) == 0 {
				continue
			}
			kv := map[string]string{}
			var pos []string
			for _, x := range fields[1:] {
				if i := strings.Index(x, "="); i > 0 && !strings.HasPrefix(x, "(") {
					kv[x[:i]] = x[i+1:]
				} else {
					pos = append(pos, x)
				}
			}
			where := w.Fset.Position(cm.Pos())
			var fn *ssa.Function
			var fns []*ssa.Function
			if fd := funcDocs[cg]; fd != nil {
				fns = w.functionsFor(pkg, fd)
				if len(fns) > 0 {
					fn = fns[0]
				}
			}
			props := splitList(kv["props"])
			switch fields[0] {
			case "lemma":
				if fn == nil {
					return fmt.Errorf("%s: lemma directive without function", where)
				}
				for _, g := range fns {
					w.Harnesses = append(w.Harnesses, &Harness{Name: shortFn(g), Fn: g, Kind: "lemma", Props: props, Expect: parseExpect(kv["expect"]), Bounded: kv["bounded"], Paths: kv["mode"] == "paths", Real: realSet(kv["real"]), Use: realSet(kv["use"])})
				}
			case "contract":
				if fn == nil {
					return fmt.Errorf("%s: contract directive without function", where)
				}
				for _, g := range fns {
					target := kv["target"]
					if len(g.TypeArgs()) > 0 {
						target = instantiateName(target, g)
					}
					ct := &Contract{Target: target, Fn: g, Props: props, Pkg: pkg.Pkg.Path()}
					for _, p := range pos {
						if p == "use" {
							ct.UseAtCalls = true
						}
						if p == "optin" { // applied only in harnesses that list the target under use=
							ct.UseAtCalls, ct.OptIn = true, true
						}
					}
					if w.byName[target] == nil && !strings.Contains(target, "?") {
						return fmt.Errorf("%s: contract target %q not found", where, target)
					}
					w.Contracts[target] = ct
					if kv["verify"] != "no" {
						w.Harnesses = append(w.Harnesses, &Harness{Name: shortFn(g), Fn: g, Kind: "contract", Props: props, Target: target, Expect: parseExpect(kv["expect"]), Contract: ct, Bounded: kv["bounded"], Paths: kv["mode"] == "paths"})
					}
				}
			case "loop":
				if fn == nil {
					return fmt.Errorf("%s: loop directive without function", where)
				}
				idx, _ := strconv.Atoi(kv["index"])
				key := fmt.Sprintf("%s#%d", kv["target"], idx)
				if w.byName[kv["target"]] == nil {
					return fmt.Errorf("%s: loop target %q not found", where, kv["target"])
				}
				w.Loops[key] = &LoopSpec{Key: key, Contract: fn, Props: props}
			case "unroll":
				if len(pos) < 2 {
					return fmt.Errorf("%s: unroll needs <func#k> <n>", where)
				}
				n, err := strconv.Atoi(pos[1])
				if err != nil {
					return fmt.Errorf("%s: bad unroll count", where)
				}
				tn := pos[0][:strings.LastIndex(pos[0], "#")]
				if w.byName[tn] == nil {
					return fmt.Errorf("%s: unroll target %q not found", where, tn)
				}
				w.Loops[pos[0]] = &LoopSpec{Key: pos[0], Unroll: n, Bounded: len(pos) > 2 && pos[2] == "bounded"}
			case "model":
				if fn == nil || len(pos) < 1 {
					return fmt.Errorf("%s: model directive needs a function and a target", where)
				}
				// a model is scoped to the harnesses of the package that declares it (two packages may model one
				// dependency differently) unless it is marked global
				if len(pos) > 1 && pos[1] == "global" {
					w.Models[pos[0]] = fn
					w.ModelPkg[pos[0]] = ""
				} else {
					w.Models[pos[0]+"@"+pkg.Pkg.Path()] = fn
				}
			case "maypanic":
				if len(pos) < 1 {
					return fmt.Errorf("%s: maypanic needs a function", where)
				}
				w.MayPanic[pos[0]] = strings.Join(pos[1:], " ")
			case "inline":
				for _, p := range pos {
					w.Inline[p] = true
				}
			default:
				return fmt.Errorf("%s: unknown directive %q", where, fields[0])
			}
		}
	}
	return nil
}

func splitList(s string) []string {
	if s == "" {
		return nil
	}
	return strings.Split(s, ",")
}

func parseExpect(s string) map[string]string {
	m := map[string]string{}
	for _, x := range splitList(s) {
		if i := strings.Index(x, ":"); i > 0 {
			m[x[:i]] = x[i+1:]
		}
	}
	return m
}

func realSet(s string) map[string]bool {
	m := map[string]bool{}
	for _, x := range splitList(s) {
		m[x] = true
	}
	return m
}

// functionsFor maps a declaration to its SSA function(s): generic declarations yield all instantiations.
func (w *World) functionsFor(pkg *ssa.Package, fd *ast.FuncDecl) []*ssa.Function {
	var out []*ssa.Function
	for fn := range ssautil.AllFunctions(w.Prog) {
		o := fn
		if fn.Origin() != nil {
			o = fn.Origin()
		}
		if o.Syntax() == fd {
			if fn.Origin() == nil && fn.TypeParams().Len() > 0 {
				continue // the generic template itself
			}
			out = append(out, fn)
		}
	}
	sort.Slice(out, func(i, j int) bool { return shortFn(out[i]) < shortFn(out[j]) })
	return out
}

// instantiateName substitutes "[T]" in a generic target name by the wrapper instance's type arguments.
func instantiateName(target string, g *ssa.Function) string {
	n := shortFn(g)
	if i := strings.Index(n, "["); i >= 0 {
		if j := strings.LastIndex(n, "]"); j > i {
			return strings.ReplaceAll(target, "[T]", n[i:j+1])
		}
	}
	return target
}

// FuncNames lists all function names (sorted).
func (w *World) FuncNames() []string {
	var out []string
	for n := range w.byName {
		out = append(out, n)
	}
	sort.Strings(out)
	return out
}
