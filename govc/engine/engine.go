package engine

import (
	"fmt"
	"go/constant"
	"go/token"
	"go/types"
	"math"
	"time"

	"golang.org/x/tools/go/ssa"

	"govc/smt"
)

// Engine symbolically executes one harness. A fresh Engine (and smt.Ctx) is used per harness.
type Engine struct {
	realFns map[string]bool // functions of /repo executed from their real bodies in this harness
	scalarObjs []*smt.Term // bases of the single (non-array) objects allocated so far
	C          *smt.Ctx
	M          *memCtx
	ly         *layouts
	pl         *places
	W          *World

	initMem  map[string]*MemNode
	axioms   []*smt.Term
	axiomSet map[int]bool

	closures   map[uint64]*closure
	nextFn     uint64
	tagOf      map[string]uint64
	typeOf     map[uint64]types.Type
	globals    map[*ssa.Global]uint64
	strLits    map[string]Value
	litBridged map[string]bool // literals whose strid(base,off,len) = literal id axiom was emitted
	boxes      int

	harness       *Harness
	obls          []*Obligation
	depth         int
	callStack     []string
	oldHeap       []map[string]*MemNode // stack of pre-call heaps for vOld
	mode          []ctrMode             // contract interpretation mode stack
	steps         int
	notes         []string
	trusted       map[string]bool // assumptions used (models, opaque calls...)
	ghostCalls    map[string]int
	safetySeq     int
	loopCtx       []*loopFrame
	ctrs          []*ctrFrame
	usedContracts map[string]bool
	usedLoops     map[string]bool
	ifaceAsserts  map[string]types.Type
	litIDs        map[string]uint64
	smallSet      map[int]bool
	smallMemo     map[int]bool
	nonNegSet     map[int]bool
	topLits       map[int]bool // path-condition literals stated unconditionally by the contract (see assumeStated)
	errT          types.Type
	deadline      time.Time
	feasCalls     int
	session       *smt.Session
	sessionTried  bool
	feasSec       float64
	feasN         int
	paths         bool
	pending       []callOut
	feasMemo      map[string]bool
}

type closure struct {
	fn       *ssa.Function
	bindings []Value
}

type ctrMode int

const (
	modeVerify ctrMode = iota // vRequires assumed, vEnsures asserted
	modeUse                   // vRequires asserted, target call havoced, vEnsures assumed
)

func newEngine(w *World, h *Harness) *Engine {
	c := smt.NewCtx()
	e := &Engine{
		C: c, W: w, harness: h,
		M:             &memCtx{c: c, memo: map[string]*smt.Term{}, baseLike: map[int]bool{}},
		ly:            &layouts{memo: map[string][]leaf{}},
		pl:            &places{byKey: map[string]int{}},
		initMem:       map[string]*MemNode{},
		axiomSet:      map[int]bool{},
		closures:      map[uint64]*closure{},
		tagOf:         map[string]uint64{},
		typeOf:        map[uint64]types.Type{},
		globals:       map[*ssa.Global]uint64{},
		strLits:       map[string]Value{},
		trusted:       map[string]bool{},
		ghostCalls:    map[string]int{},
		nextFn:        1 << 32,
		usedContracts: map[string]bool{}, usedLoops: map[string]bool{}, realFns: map[string]bool{},
		ifaceAsserts: map[string]types.Type{}, litIDs: map[string]uint64{},
		smallSet: map[int]bool{}, smallMemo: map[int]bool{}, nonNegSet: map[int]bool{}, topLits: map[int]bool{},
	}
	e.deadline = time.Now().Add(time.Duration(w.GenSeconds) * time.Second)
	e.M.deadline = e.deadline
	e.paths = h.Paths
	e.feasMemo = map[string]bool{}
	c.Deadline = e.deadline.Add(10 * time.Second)
	c.Distinct = e.M.distinctIDs
	c.Small = e.isSmall
	c.NonNeg = e.isNonNeg
	return e
}

// isNonNeg: a non-negative quantity below 2^50: slice lengths/capacities/offsets, zero-extended narrow values,
// small constants, integer inputs bounded below by such a quantity.
func (e *Engine) isNonNeg(t *smt.Term) bool {
	switch t.Op {
	case smt.OConst:
		return t.Val < 1<<50
	case smt.OVar, smt.OApp:
		return e.nonNegSet[t.ID]
	case smt.OZeroExt:
		return t.Args[0].Sort.Width <= 48
	case smt.OIte:
		return e.isNonNeg(t.Args[1]) && e.isNonNeg(t.Args[2])
	case smt.OBVAnd:
		return t.Args[1].IsConst() && t.Args[1].Val < 1<<50
	}
	return false
}

// isSmall: the term, read as a signed 64-bit integer, is known to have magnitude below 2^56. Lengths, capacities
// and offsets of slices (constrained below 2^48), narrow integers widened to 64 bits, small constants, integer
// inputs a harness bounded by such terms, and short sums of those.
func (e *Engine) isSmall(t *smt.Term) bool {
	if t.Sort.Kind != smt.KBV || t.Sort.Width != 64 {
		return false
	}
	if v, ok := e.smallMemo[t.ID]; ok {
		return v
	}
	e.smallMemo[t.ID] = false // cycle guard (terms are DAGs, but keep it cheap)
	r := false
	switch t.Op {
	case smt.OConst:
		r = t.Val < 1<<50 || t.Val > ^uint64(0)-(1<<50)
	case smt.OVar, smt.OApp:
		r = e.smallSet[t.ID]
	case smt.OZeroExt:
		r = t.Args[0].Sort.Width <= 48
	case smt.OSignExt:
		r = t.Args[0].Sort.Width <= 48
	case smt.OIte:
		r = e.isSmall(t.Args[1]) && e.isSmall(t.Args[2])
	case smt.OAdd, smt.OSub, smt.ONeg, smt.OMul:
		k, atoms, coefs := e.C.LinAtoms(t)
		r = (k < 1<<50 || k > ^uint64(0)-(1<<50)) && len(atoms) <= 8
		for i, a := range atoms {
			co := int64(coefs[i])
			if co < -16 || co > 16 || !e.isSmall(a) {
				r = false
				break
			}
		}
	case smt.OBVAnd:
		r = (t.Args[1].IsConst() && t.Args[1].Val < 1<<50) || e.isSmall(t.Args[0]) && e.isSmall(t.Args[1])
	case smt.OLshr:
		r = t.Args[1].IsConst() && t.Args[1].Val >= 14
	}
	e.smallMemo[t.ID] = r
	return r
}

func (e *Engine) markSmall(t *smt.Term) {
	if t.Op == smt.OVar || t.Op == smt.OApp {
		if !e.smallSet[t.ID] {
			e.smallSet[t.ID] = true
			e.smallMemo = map[int]bool{}
		}
	}
}

func (e *Engine) axiom(t *smt.Term) {
	if t.IsTrue() || e.axiomSet[t.ID] {
		return
	}
	e.axiomSet[t.ID] = true
	e.axioms = append(e.axioms, t)
}

func (e *Engine) trust(s string) { e.trusted[s] = true }

func (e *Engine) k64(v uint64) *smt.Term { return e.C.Const(v, 64) }

// ---------------------------------------------------------------- type invariants for symbolic leaves

const maxLen = uint64(1) << 48

// constrain adds the type-invariant axioms for a symbolic value whose leaves are vars/UF applications.
func (e *Engine) constrain(v Value) {
	lv := e.ly.of(v.T)
	c := e.C
	for i, lf := range lv {
		t := v.L[i]
		if t.Op != smt.OVar && t.Op != smt.OApp {
			continue
		}
		switch lf.Kind {
		case lkBase:
			st, _ := e.M.headStamp(t)
			e.axiom(c.Ult(t, e.k64(freshBaseStart+uint64(st))))
			e.M.baseLike[t.ID] = true
			// unknown references never designate a package-level variable of the program under verification
			e.axiom(c.Or(c.Ult(t, e.k64(globalStart)), c.Ule(e.k64(rodataStart), t)))
			// typed separation: the backing array of a slice read from memory that was cut (loop head, contract frame) is
			// never one of the single (non-array) objects allocated so far - Go cannot make a slice out of those. Byte
			// slices are exempt: unsafe reinterpretation of a scalar as bytes is an idiom of the code under contract.
			if st > 0 && lf.Ptee != nil && !isByteLike(lf.Ptee) {
				for _, o := range e.scalarObjs {
					e.axiom(c.Not(c.Eq(t, o)))
				}
			}
		case lkIndex, lkLen, lkCap:
			e.axiom(c.Ult(t, e.k64(maxLen)))
			e.markSmall(t)
			e.nonNegSet[t.ID] = true
		}
	}
	e.constrainShape(v.T, v.L)
}

// constrainShape adds relational invariants (len<=cap, nil slices are empty).
func (e *Engine) constrainShape(t types.Type, l []*smt.Term) {
	c := e.C
	symbolic := func(ts ...*smt.Term) bool {
		for _, t := range ts {
			if t.Op == smt.OVar || t.Op == smt.OApp {
				return true
			}
		}
		return false
	}
	switch u := t.Underlying().(type) {
	case *types.Slice:
		if symbolic(l...) {
			e.axiom(c.Ule(l[2], l[3]))
			e.axiom(c.Implies(c.Eq(l[0], e.k64(0)), c.Eq(l[3], e.k64(0))))
			e.axiom(c.Ult(c.Add(l[1], l[3]), e.k64(maxLen)))
		}
	case *types.Basic:
		if u.Info()&types.IsString != 0 && symbolic(l...) {
			e.axiom(c.Implies(c.Eq(l[0], e.k64(0)), c.Eq(l[2], e.k64(0))))
			e.axiom(c.Ult(c.Add(l[1], l[2]), e.k64(maxLen)))
		}
	case *types.Struct:
		off := 0
		for i := 0; i < u.NumFields(); i++ {
			n := len(e.ly.of(u.Field(i).Type()))
			e.constrainShape(u.Field(i).Type(), l[off:off+n])
			off += n
		}
	case *types.Array:
		n := len(e.ly.of(u.Elem()))
		for i := 0; i < int(u.Len()); i++ {
			e.constrainShape(u.Elem(), l[i*n:(i+1)*n])
		}
	}
}

// symbolic makes a fresh unconstrained value of type t (with type invariants).
func (e *Engine) symbolic(t types.Type, name string) Value {
	lv := e.ly.of(t)
	v := Value{T: t, L: make([]*smt.Term, len(lv))}
	for i, lf := range lv {
		if lf.Kind == lkPtrMeta {
			if lf.Ptee != nil {
				v.L[i] = e.k64(uint64(e.placeForPointee(lf.Ptee)))
			} else {
				v.L[i] = e.C.FreshVar(name+lf.Name, lf.Sort)
			}
			continue
		}
		v.L[i] = e.C.FreshVar(name+lf.Name, lf.Sort)
	}
	e.constrain(v)
	return v
}

func (e *Engine) zero(t types.Type) Value {
	lv := e.ly.of(t)
	v := Value{T: t, L: make([]*smt.Term, len(lv))}
	for i, lf := range lv {
		v.L[i] = e.zeroLeaf(lf)
	}
	return v
}

func (e *Engine) zeroLeaf(lf leaf) *smt.Term {
	if lf.Sort.Kind == smt.KBool {
		return e.C.False()
	}
	return e.C.Const(0, lf.Sort.Width)
}

// ---------------------------------------------------------------- allocation

func (e *Engine) freshBase() *smt.Term {
	return e.k64(freshBaseStart + uint64(e.C.NextStamp()))
}

// allocObject allocates zeroed storage with element type root (an object is a 1-element store).
func (e *Engine) allocZero(st *State, root types.Type) *smt.Term {
	base := e.freshBase()
	for i, lf := range e.ly.of(root) {
		m := e.memFor(st, root, i)
		st.heap[heapKey(root, i)] = e.M.node(MemNode{kind: mZero, prev: m, sort: m.sort, a0: base, val: e.zeroLeaf(lf)})
	}
	return base
}

func (e *Engine) ptrTo(base, idx *smt.Term, pl place, ptrType types.Type) Value {
	return Value{T: ptrType, L: []*smt.Term{base, idx, e.k64(uint64(e.pl.intern(pl)))}}
}

func isByteLike(t types.Type) bool {
	b, ok := t.Underlying().(*types.Basic)
	return ok && (b.Kind() == types.Uint8 || b.Kind() == types.Int8)
}

func hasArray(t types.Type) bool {
	switch u := t.Underlying().(type) {
	case *types.Array:
		return true
	case *types.Struct:
		for i := 0; i < u.NumFields(); i++ {
			if hasArray(u.Field(i).Type()) {
				return true
			}
		}
	}
	return false
}

// newObject allocates a zeroed object of type t and returns a pointer value of type ptrType.
func (e *Engine) newObject(st *State, t types.Type, ptrType types.Type) Value {
	if at, ok := t.Underlying().(*types.Array); ok {
		base := e.allocZero(st, at.Elem())
		return e.ptrTo(base, e.k64(0), place{Root: at.Elem(), Ptee: t, ArrayOf: true}, ptrType)
	}
	base := e.allocZero(st, t)
	if !hasArray(t) && len(e.scalarObjs) < 64 {
		e.scalarObjs = append(e.scalarObjs, base)
	}
	return e.ptrTo(base, e.k64(0), place{Root: t, Ptee: t}, ptrType)
}

// ---------------------------------------------------------------- pointer deref

func (e *Engine) placeOf(p Value, why string) place {
	a2 := p.L[2]
	if !a2.IsConst() {
		// ite over constants with the same place collapses at construction; anything else is outside the subset
		if pt, ok := p.T.Underlying().(*types.Pointer); ok {
			return e.pl.get(e.placeForPointee(pt.Elem()))
		}
		panic(unsupported("pointer with unknown target layout (" + why + ")"))
	}
	if a2.Val == 0 {
		if pt, ok := p.T.Underlying().(*types.Pointer); ok {
			return e.pl.get(e.placeForPointee(pt.Elem()))
		}
		panic(unsupported("nil/untyped pointer dereference (" + why + ")"))
	}
	return e.pl.get(int(a2.Val))
}

// loadAt reads a value of type t through pointer p.
func (e *Engine) loadAt(st *State, p Value, t types.Type) Value {
	pl := e.placeOf(p, "load")
	if pl.ArrayOf {
		// loading a whole array value
		at := t.Underlying().(*types.Array)
		nl := len(e.ly.of(at.Elem()))
		v := Value{T: t}
		for i := int64(0); i < at.Len(); i++ {
			for j := 0; j < nl; j++ {
				m := e.memFor(st, pl.Root, pl.Off+j)
				v.L = append(v.L, e.M.read(m, p.L[0], e.C.Add(p.L[1], e.k64(uint64(i)))))
			}
		}
		return v
	}
	lv := e.ly.of(t)
	v := Value{T: t, L: make([]*smt.Term, len(lv))}
	rootLeaves := e.ly.of(pl.Root)
	for j := range lv {
		if pl.Off+j >= len(rootLeaves) {
			panic(unsupported(fmt.Sprintf("load of %s beyond object %s", t, pl.Root)))
		}
		m := e.memFor(st, pl.Root, pl.Off+j)
		v.L[j] = e.M.read(m, p.L[0], p.L[1])
	}
	e.constrain(v)
	return v
}

func (e *Engine) storeAt(st *State, p Value, v Value) {
	pl := e.placeOf(p, "store")
	if pl.ArrayOf {
		at := v.T.Underlying().(*types.Array)
		nl := len(e.ly.of(at.Elem()))
		for i := int64(0); i < at.Len(); i++ {
			for j := 0; j < nl; j++ {
				k := heapKey(pl.Root, pl.Off+j)
				m := e.memFor(st, pl.Root, pl.Off+j)
				st.heap[k] = e.M.store(m, p.L[0], e.C.Add(p.L[1], e.k64(uint64(i))), v.L[int(i)*nl+j])
			}
		}
		return
	}
	rootLeaves := e.ly.of(pl.Root)
	for j := range v.L {
		if pl.Off+j >= len(rootLeaves) {
			panic(unsupported(fmt.Sprintf("store of %s beyond object %s", v.T, pl.Root)))
		}
		k := heapKey(pl.Root, pl.Off+j)
		m := e.memFor(st, pl.Root, pl.Off+j)
		st.heap[k] = e.M.store(m, p.L[0], p.L[1], v.L[j])
	}
}

// ---------------------------------------------------------------- constants

func (e *Engine) constValue(k *ssa.Const) Value {
	t := k.Type()
	if k.Value == nil {
		return e.zero(t)
	}
	switch u := t.Underlying().(type) {
	case *types.Basic:
		switch {
		case u.Info()&types.IsBoolean != 0:
			return Value{T: t, L: []*smt.Term{e.C.Bool(constant.BoolVal(k.Value))}}
		case u.Info()&types.IsString != 0:
			return e.stringLit(constant.StringVal(k.Value), t)
		case u.Info()&types.IsInteger != 0:
			w := basicWidth(u)
			var v uint64
			if i, ok := constant.Int64Val(constant.ToInt(k.Value)); ok {
				v = uint64(i)
			} else if ui, ok := constant.Uint64Val(constant.ToInt(k.Value)); ok {
				v = ui
			} else {
				panic(unsupported("integer constant out of range"))
			}
			return Value{T: t, L: []*smt.Term{e.C.Const(v, w)}}
		case u.Info()&types.IsFloat != 0:
			f, _ := constant.Float64Val(k.Value)
			if basicWidth(u) == 32 {
				return Value{T: t, L: []*smt.Term{e.C.Const(uint64(math.Float32bits(float32(f))), 32)}}
			}
			return Value{T: t, L: []*smt.Term{e.C.Const(math.Float64bits(f), 64)}}
		}
	}
	panic(unsupported("constant of type " + t.String()))
}

const rodataStart = uint64(1) << 61

// globalStart: identities of package-level variables live in [2^60, 2^61).
const globalStart = uint64(1) << 60

// stringLit gives each distinct literal a fixed read-only base with known content.
func (e *Engine) stringLit(s string, t types.Type) Value {
	if v, ok := e.strLits[s]; ok {
		return Value{T: t, L: v.L}
	}
	base := e.k64(rodataStart + uint64(len(e.strLits)+1))
	if len(s) == 0 {
		base = e.k64(0)
	}
	v := Value{T: t, L: []*smt.Term{base, e.k64(0), e.k64(uint64(len(s)))}}
	e.strLits[s] = v
	if len(s) > 0 && len(s) <= 128 {
		in := e.initNode(types.Typ[types.Uint8], 0)
		for i := 0; i < len(s); i++ {
			e.axiom(e.C.Eq(e.C.App(in.uf, base, e.k64(uint64(i))), e.C.Const(uint64(s[i]), 8)))
		}
	}
	return v
}

// litContent returns the literal string for a rodata base, if any.
func (e *Engine) litOf(v Value) (string, bool) {
	if len(v.L) < 3 || !v.L[0].IsConst() || !v.L[2].IsConst() {
		return "", false
	}
	if v.L[2].Val == 0 {
		return "", true
	}
	for s, lv := range e.strLits {
		if lv.L[0] == v.L[0] && v.L[1].IsConst() {
			off, n := v.L[1].Val, v.L[2].Val
			if off+n <= uint64(len(s)) {
				return s[off : off+n], true
			}
		}
	}
	return "", false
}

func (e *Engine) posStr(p token.Pos) string {
	if !p.IsValid() {
		return "-"
	}
	pos := e.W.Fset.Position(p)
	return fmt.Sprintf("%s:%d", shortFile(pos.Filename), pos.Line)
}

func shortFile(f string) string {
	const pre = "/repo/"
	if len(f) > len(pre) && f[:len(pre)] == pre {
		return f[len(pre):]
	}
	return f
}

// typeTag interns a dynamic type for interface values.
func (e *Engine) typeTag(t types.Type) *smt.Term {
	k := typeKey(t)
	id, ok := e.tagOf[k]
	if !ok {
		id = uint64(len(e.tagOf) + 1)
		e.tagOf[k] = id
		e.typeOf[id] = t
	}
	return e.k64(id)
}
