package engine

import (
	"fmt"
	"go/constant"
	"go/token"
	"go/types"

	"golang.org/x/tools/go/ssa"

	"govc/smt"
)

type ctrFrame struct {
	target   string
	mode     ctrMode
	oldHeap  map[string]*MemNode
	modifies []Value
	wrapper  *ssa.Function
}

func (e *Engine) curCtr() *ctrFrame {
	if len(e.ctrs) == 0 {
		return nil
	}
	return e.ctrs[len(e.ctrs)-1]
}

// inWrapperOf: the innermost contract frame is for `name` and its target call has not been entered yet.
func (e *Engine) inWrapperOf(name string) bool {
	f := e.curCtr()
	return f != nil && f.target == name && f.oldHeap == nil
}

func (e *Engine) verifyingTarget(name string) bool { return false }

// useContract replaces a call to the target by its contract wrapper interpreted in use mode.
func (e *Engine) useContract(st *State, ct *Contract, fn *ssa.Function, args []Value, pos token.Pos) (*Value, *State) {
	e.ctrs = append(e.ctrs, &ctrFrame{target: ct.Target, mode: modeUse, wrapper: ct.Fn})
	defer func() { e.ctrs = e.ctrs[:len(e.ctrs)-1] }()
	e.usedContracts[ct.Target] = true
	e.trust("contract " + shortFn(ct.Fn) + " stands for " + ct.Target + " at its call sites in this harness (its clauses are assumed here; the function's own lemma, if any, runs the real body)")
	return e.inline(st, ct.Fn, args, nil, pos)
}

// havocTargetCall: inside a wrapper in use mode, the target call changes what vModifies declared and returns unknown results.
func (e *Engine) havocTargetCall(st *State, fn *ssa.Function, args []Value, pos token.Pos) (*Value, *State) {
	f := e.curCtr()
	f.oldHeap = copyHeap(st.heap)
	for _, m := range f.modifies {
		e.havocValue(st, m)
	}
	if fn.Signature.Results().Len() == 0 {
		return nil, st
	}
	r := e.symbolic(resultType(fn.Signature), "ret_"+fn.Name())
	return &r, st
}

// havocValue forgets what is known about the memory a pointer/slice designates.
func (e *Engine) havocValue(st *State, v Value) {
	switch u := v.T.Underlying().(type) {
	case *types.Pointer:
		pl := e.placeOf(v, "modifies")
		if pl.ArrayOf {
			e.havocBase(st, pl.Root, v.L[0])
			return
		}
		nv := e.symbolic(u.Elem(), "havoc_"+smt.Sanitize(u.Elem().String()))
		e.storeAt(st, v, nv)
	case *types.Slice:
		e.havocBase(st, u.Elem(), v.L[0])
	default:
		panic(unsupported("vModifies argument of type " + v.T.String()))
	}
}

func (e *Engine) havocBase(st *State, elem types.Type, base *smt.Term) {
	for j, lf := range e.ly.of(elem) {
		k := heapKey(elem, j)
		m := e.memFor(st, elem, j)
		n := MemNode{kind: mHavoc, prev: m, sort: m.sort, a0: base}
		if lf.Kind == lkPtrMeta && lf.Ptee != nil {
			n.kind = mZero
			n.val = e.k64(uint64(e.placeForPointee(lf.Ptee)))
		} else {
			n.uf = e.C.FreshFunc("Hv_"+k, []smt.Sort{bv64, bv64}, lf.Sort)
		}
		st.heap[k] = e.M.node(n)
	}
}

var intrinsicNames = map[string]bool{"vAssume": true, "vAssert": true, "vRequires": true, "vEnsures": true, "vModifies": true,
	"vNondet": true, "vOld": true, "vForall": true, "vInvariant": true, "vBody": true, "vStep": true, "vCallCount": true,
	"vCallArg": true, "vSameSlice": true, "vFresh": true, "vSeparate": true, "vJoined": true, "vSame": true, "VSeparate": true, "vDistinctBacking": true, "vHavocRange": true, "vCallAnon": true, "vMkTime": true, "vTimeNanos": true, "vCallAnonErr": true, "vStringSeparate": true, "vCallAnonRes": true}

func constString(v ssa.Value) string {
	if c, ok := v.(*ssa.Const); ok && c.Value != nil && c.Value.Kind() == constant.String {
		return constant.StringVal(c.Value)
	}
	return ""
}

// intrinsic handles the v* specification functions declared in the verif-tagged files.
func (e *Engine) intrinsic(st *State, fn *ssa.Function, name string, args []Value, pos token.Pos) (*Value, *State, bool) {
	base := fn.Name()
	if fn.Origin() != nil {
		base = fn.Origin().Name()
	}
	if !intrinsicNames[base] {
		return nil, nil, false
	}
	if p := fn.Package(); p != nil && !e.W.Repo[p.Pkg.Path()] {
		return nil, nil, false
	} else if p == nil && fn.Origin() != nil && fn.Origin().Package() != nil && !e.W.Repo[fn.Origin().Package().Pkg.Path()] {
		return nil, nil, false
	}
	c := e.C
	label := func(i int) string {
		l, ok := e.litOf(args[i])
		if !ok {
			panic(unsupported(base + ": label must be a constant string"))
		}
		return l
	}
	boolV := func(t *smt.Term) *Value { return &Value{T: types.Typ[types.Bool], L: []*smt.Term{t}} }
	mode := modeVerify
	if f := e.curCtr(); f != nil {
		mode = f.mode
	}
	switch base {
	case "vAssume":
		e.assumeStated(st, args[0].L[0])
		return nil, st, true
	case "vAssert":
		e.oblige(st, label(0), KindAssert, args[1].L[0], pos, "assertion "+label(0))
		return nil, st, true
	case "vRequires":
		if mode == modeUse {
			f := e.curCtr()
			e.oblige(st, "call:"+f.target+".requires", KindPre, args[0].L[0], pos, "precondition of "+f.target+" at call from "+e.callerOfWrapper())
		} else {
			e.assumeStated(st, args[0].L[0])
		}
		return nil, st, true
	case "vEnsures":
		if mode == modeUse {
			e.assumeStated(st, args[1].L[0])
		} else {
			e.oblige(st, label(0), KindEnsures, args[1].L[0], pos, "postcondition "+label(0))
		}
		return nil, st, true
	case "vModifies":
		f := e.curCtr()
		if f == nil {
			return nil, st, true
		}
		s := args[0]
		if !s.L[2].IsConst() {
			panic(unsupported("vModifies with non-constant argument count"))
		}
		anyT := s.T.Underlying().(*types.Slice).Elem()
		for i := uint64(0); i < s.L[2].Val; i++ {
			p := Value{T: types.NewPointer(anyT), L: []*smt.Term{s.L[0], c.Add(s.L[1], e.k64(i)), e.k64(uint64(e.placeForPointee(anyT)))}}
			iv := e.loadAt(st, p, anyT)
			if !iv.L[0].IsConst() {
				panic(unsupported("vModifies argument with unknown dynamic type"))
			}
			f.modifies = append(f.modifies, e.unboxIface(st, iv, e.typeOf[iv.L[0].Val]))
		}
		return nil, st, true
	case "vNondet":
		v := e.symbolic(fn.Signature.Results().At(0).Type(), "nondet")
		return &v, st, true
	case "vOld":
		saveP := e.paths
		e.paths = false
		defer func() { e.paths = saveP }()
		f := e.curCtr()
		if f == nil || f.oldHeap == nil {
			panic(unsupported("vOld outside a contract wrapper or before the target call"))
		}
		tmp := st.clone()
		tmp.heap = copyHeap(f.oldHeap)
		r, _ := e.callValue(tmp, args[0], nil, args[0].T.Underlying().(*types.Signature), pos)
		if r == nil {
			panic(unsupported("vOld closure produced no value"))
		}
		return r, st, true
	case "vForall":
		saveP := e.paths
		e.paths = false
		defer func() { e.paths = saveP }()
		lo, hi := args[0].L[0], args[1].L[0]
		fi := c.FreshVar("q", bv64)
		tmp := st.clone()
		rng := c.And(c.Sle(lo, fi), c.Slt(fi, hi))
		e.assume(tmp, rng)
		r, _ := e.callValue(tmp, args[2], []Value{{T: types.Typ[types.Int], L: []*smt.Term{fi}}}, args[2].T.Underlying().(*types.Signature), pos)
		if r == nil {
			return boolV(c.True()), st, true
		}
		b := c.BoundVar("i", bv64)
		m := map[int]*smt.Term{fi.ID: b}
		body := c.Subst(c.Implies(rng, r.L[0]), m)
		return boolV(c.Forall([]*smt.Term{b}, body)), st, true
	case "vInvariant", "vBody", "vStep":
		return e.loopIntrinsic(st, base, args, pos, label)
	case "vCallCount":
		fv := e.unboxAny(st, args[0])
		cm := e.memByKey(st, "$calls", bv64, lkScalar)
		v := Value{T: types.Typ[types.Int], L: []*smt.Term{e.M.read(cm, fv.L[0], e.k64(0))}}
		return &v, st, true
	case "vCallArg":
		// vCallArg(f any, n int, leaf int) uint64 : leaf-th argument leaf (zero-extended) of the n-th call
		fv := e.unboxAny(st, args[0])
		if !args[2].L[0].IsConst() {
			panic(unsupported("vCallArg leaf index must be constant"))
		}
		li := int(args[2].L[0].Val)
		for _, srt := range []smt.Sort{bv64, smt.BV(32), smt.BV(16), smt.BV(8)} {
			k := fmt.Sprintf("$callarg%d_%s", li, srt)
			if _, ok := st.heap[k]; ok {
				am := st.heap[k]
				v := Value{T: types.Typ[types.Uint64], L: []*smt.Term{c.ZeroExt(e.M.read(am, fv.L[0], args[1].L[0]), 64)}}
				return &v, st, true
			}
		}
		panic(unsupported("vCallArg: no such logged argument leaf"))
	case "vSameSlice":
		// vSameSlice(a, b []T) bool : same backing position, length (aliasing view), not content
		a, b := args[0], args[1]
		return boolV(c.And(c.Eq(a.L[0], b.L[0]), c.Eq(a.L[1], b.L[1]), c.Eq(a.L[2], b.L[2]))), st, true
	case "vJoined":
		// vJoined(f): run f with control-flow joins (one resulting state) even inside a path-sensitive harness
		saveP := e.paths
		e.paths = false
		_, out := e.callValue(st, args[0], nil, args[0].T.Underlying().(*types.Signature), pos)
		e.paths = saveP
		return nil, out, true
	case "vCallAnonErr", "vCallAnonRes":
		// like vCallAnon; the single result is stored through the first argument
		r, out, ok := e.intrinsicCallAnon(st, args[1:], pos)
		if !ok || out == nil {
			return nil, out, true
		}
		if r != nil {
			rv := *r
			rv.T = args[0].T.Underlying().(*types.Pointer).Elem()
			e.storeAt(out, args[0], rv)
		}
		return nil, out, true
	case "vCallAnon":
		r, out, _ := e.intrinsicCallAnon(st, args, pos)
		return r, out, true
	case "vMkTime":
		// time.Time abstracted to nanoseconds since the epoch, kept in the `ext` leaf (wall = 0, loc = nil)
		rt := fn.Signature.Results().At(0).Type()
		v := e.zero(rt)
		v.L[1] = args[0].L[0]
		return &v, st, true
	case "vTimeNanos":
		v := Value{T: types.Typ[types.Int64], L: []*smt.Term{args[0].L[1]}}
		return &v, st, true
	case "vHavocRange":
		// vHavocRange(s any): the elements s[0:len(s)] take unknown values (models say what they know afterwards)
		sv := e.unboxAny(st, args[0])
		elem := sv.T.Underlying().(*types.Slice).Elem()
		for j, lf := range e.ly.of(elem) {
			k := heapKey(elem, j)
			mm := e.memFor(st, elem, j)
			if lf.Kind == lkPtrMeta && lf.Ptee != nil {
				continue
			}
			st.heap[k] = e.M.node(MemNode{kind: mHavocR, prev: mm, sort: mm.sort, a0: sv.L[0], a1: sv.L[1], n: sv.L[2],
				uf: e.C.FreshFunc("Hr_"+k, []smt.Sort{bv64, bv64}, lf.Sort)})
		}
		return nil, st, true
	case "vDistinctBacking":
		// vDistinctBacking(a, b any): two slices (boxed in interfaces) live in different backing arrays
		x, y := e.unboxAny(st, args[0]), e.unboxAny(st, args[1])
		return boolV(c.Or(c.Ne(x.L[0], y.L[0]), c.Eq(x.L[0], e.k64(0)))), st, true
	case "vSame":
		// vSame(a, b): bit-for-bit equality of two values of the same type
		acc := c.True()
		for k := range args[0].L {
			acc = c.And(acc, c.Eq(args[0].L[k], args[1].L[k]))
		}
		return boolV(acc), st, true
	case "vStringSeparate":
		// vStringSeparate(s, b): the string's bytes do not live in the backing array of the byte slice
		return boolV(c.Or(c.Ne(args[0].L[0], args[1].L[0]), c.Eq(args[0].L[0], e.k64(0)), c.Eq(args[0].L[2], e.k64(0)))), st, true
	case "vSeparate", "VSeparate":
		// vSeparate(a, b): the two slices/strings live in different backing arrays
		return boolV(c.Or(c.Ne(args[0].L[0], args[1].L[0]), c.Eq(args[0].L[0], e.k64(0)))), st, true
	case "vFresh":
		// vFresh(p) : p designates storage allocated during this execution
		a0 := e.unboxAny(st, args[0]).L[0]
		return boolV(c.Ule(e.k64(freshBaseStart), a0)), st, true
	}
	return nil, nil, false
}

func (e *Engine) unboxAny(st *State, iv Value) Value {
	if !iv.L[0].IsConst() {
		panic(unsupported("any-typed intrinsic argument with unknown dynamic type"))
	}
	return e.unboxIface(st, iv, e.typeOf[iv.L[0].Val])
}

func (e *Engine) callerOfWrapper() string {
	if len(e.callStack) >= 2 {
		return e.callStack[len(e.callStack)-2]
	}
	return e.harness.Name
}

func isStringType(t types.Type) bool {
	b, ok := t.Underlying().(*types.Basic)
	return ok && b.Info()&types.IsString != 0
}

func (e *Engine) intrinsicCallAnon(st *State, args []Value, pos token.Pos) (*Value, *State, bool) {
	c := e.C
	fname, ok := e.litOf(args[0])
	if !ok {
		panic(unsupported("vCallAnon: function name must be a constant string"))
	}
	target := e.W.FuncByName(fname)
	if target == nil {
		panic(unsupported("vCallAnon: no function " + fname))
	}
	unboxAll := func(sv Value) []Value {
		if !sv.L[2].IsConst() {
			panic(unsupported("vCallAnon: non-constant argument count"))
		}
		anyT := sv.T.Underlying().(*types.Slice).Elem()
		var out []Value
		for k := uint64(0); k < sv.L[2].Val; k++ {
			p := Value{T: types.NewPointer(anyT), L: []*smt.Term{sv.L[0], c.Add(sv.L[1], e.k64(k)), e.k64(uint64(e.placeForPointee(anyT)))}}
			out = append(out, e.unboxAny(st, e.loadAt(st, p, anyT)))
		}
		return out
	}
	binds := unboxAll(args[1])
	if len(binds) > 0 && isStringType(binds[0].T) {
		// named form: "name", &var, "name", &var ... (robust against a reordering of the captured variables)
		byName := map[string]Value{}
		for k := 0; k+1 < len(binds); k += 2 {
			n, ok := e.litOf(binds[k])
			if !ok {
				panic(unsupported("vCallAnon: captured-variable names must be constant strings"))
			}
			byName[n] = binds[k+1]
		}
		var ordered []Value
		for _, fv := range target.FreeVars {
			v, ok := byName[fv.Name()]
			if !ok {
				// a captured variable the contract does not know about holds an arbitrary value (whatever the enclosing
				// function left there): the obligations must hold for all of them
				e.note("vCallAnon %s: captured variable %s is not bound by the contract: arbitrary", fname, fv.Name())
				v = e.symbolic(fv.Type(), "captured_"+fv.Name())
			}
			ordered = append(ordered, v)
		}
		binds = ordered
	}
	var cargs []Value
	if len(args) > 2 && len(args[2].L) > 0 {
		cargs = unboxAll(args[2])
	}
	if len(binds) != len(target.FreeVars) || len(cargs) != len(target.Params) {
		var names []string
		for _, fv := range target.FreeVars {
			names = append(names, fv.Name())
		}
		panic(unsupported(fmt.Sprintf("vCallAnon %s: expects %d captured variables %v and %d arguments", fname, len(target.FreeVars), names, len(target.Params))))
	}
	for k, fv := range target.FreeVars {
		binds[k].T = fv.Type()
	}
	for k, p := range target.Params {
		cargs[k].T = p.Type()
	}
	r, out := e.callFunction(st, target, cargs, binds, pos)
	return r, out, true
}
