package engine

import (
	"go/token"
	"go/types"
	"strings"

	"golang.org/x/tools/go/ssa"

	"govc/smt"
)

// native models library functions whose semantics the engine knows directly.
func (e *Engine) native(st *State, fn *ssa.Function, name string, args []Value, pos token.Pos) (*Value, *State, bool) {
	c := e.C
	ret := func(t types.Type, l ...*smt.Term) (*Value, *State, bool) {
		return &Value{T: t, L: l}, st, true
	}
	rt := func() types.Type { return resultType(fn.Signature) }
	switch name {
	case "math.Float32bits", "math.Float64bits", "math.Float32frombits", "math.Float64frombits":
		return ret(rt(), args[0].L[0])
	case "bits.TrailingZeros64", "bits.TrailingZeros32", "bits.TrailingZeros16", "bits.TrailingZeros8", "bits.TrailingZeros":
		x := args[0].L[0]
		w := x.Sort.Width
		r := e.k64(uint64(w))
		for i := w - 1; i >= 0; i-- {
			r = c.Ite(c.Eq(c.Extract(x, i, i), c.Const(1, 1)), e.k64(uint64(i)), r)
		}
		return ret(rt(), r)
	case "bits.LeadingZeros64", "bits.LeadingZeros32", "bits.LeadingZeros16", "bits.LeadingZeros8", "bits.LeadingZeros":
		x := args[0].L[0]
		w := x.Sort.Width
		r := e.k64(uint64(w))
		for i := 0; i < w; i++ {
			r = c.Ite(c.Eq(c.Extract(x, i, i), c.Const(1, 1)), e.k64(uint64(w-1-i)), r)
		}
		return ret(rt(), r)
	case "bits.Len64", "bits.Len32", "bits.Len":
		x := args[0].L[0]
		w := x.Sort.Width
		r := e.k64(0)
		for i := 0; i < w; i++ {
			r = c.Ite(c.Eq(c.Extract(x, i, i), c.Const(1, 1)), e.k64(uint64(i+1)), r)
		}
		return ret(rt(), r)
	case "bits.OnesCount64", "bits.OnesCount32", "bits.OnesCount16", "bits.OnesCount8", "bits.OnesCount":
		x := args[0].L[0]
		return ret(rt(), e.popcount(x))
	case "atomic.AddUint64", "atomic.AddInt64", "atomic.AddUint32", "atomic.AddInt32":
		e.trust("sync/atomic operations are sequentially consistent reads/writes (no interleaving inside one obligation)")
		e.nilCheck(st, args[0], pos)
		t := args[0].T.Underlying().(*types.Pointer).Elem()
		old := e.loadAt(st, args[0], t)
		nv := c.Add(old.L[0], args[1].L[0])
		e.storeAt(st, args[0], Value{T: t, L: []*smt.Term{nv}})
		return ret(rt(), nv)
	case "atomic.LoadUint64", "atomic.LoadInt64", "atomic.LoadUint32", "atomic.LoadInt32", "atomic.LoadPointer":
		e.trust("sync/atomic operations are sequentially consistent reads/writes (no interleaving inside one obligation)")
		e.nilCheck(st, args[0], pos)
		t := args[0].T.Underlying().(*types.Pointer).Elem()
		v := e.loadAt(st, args[0], t)
		return &v, st, true
	case "atomic.StoreUint64", "atomic.StoreInt64", "atomic.StoreUint32", "atomic.StoreInt32", "atomic.StorePointer":
		e.trust("sync/atomic operations are sequentially consistent reads/writes (no interleaving inside one obligation)")
		e.nilCheck(st, args[0], pos)
		e.storeAt(st, args[0], args[1])
		return nil, st, true
	case "atomic.CompareAndSwapPointer", "atomic.CompareAndSwapUint64", "atomic.CompareAndSwapInt32", "atomic.CompareAndSwapUint32", "atomic.CompareAndSwapInt64":
		e.trust("sync/atomic operations are sequentially consistent reads/writes (no interleaving inside one obligation)")
		e.nilCheck(st, args[0], pos)
		t := args[0].T.Underlying().(*types.Pointer).Elem()
		cur := e.loadAt(st, args[0], t)
		eq := e.valuesEqual(st, cur, args[1])
		nv := e.iteValue(eq, Value{T: t, L: args[2].L}, cur)
		e.storeAt(st, args[0], nv)
		return ret(rt(), eq)
	case "commit.toBytes", "column.s2b":
		e.trust("unsafe idiom " + name + ": same bytes, no copy")
		s := args[0]
		return ret(rt(), s.L[0], s.L[1], s.L[2], s.L[2])
	case "column.b2s":
		e.trust("unsafe idiom column.b2s: same bytes, no copy")
		e.nilCheck(st, args[0], pos)
		sl := e.loadAt(st, args[0], args[0].T.Underlying().(*types.Pointer).Elem())
		return ret(rt(), sl.L[0], sl.L[1], sl.L[2])
	case "strings.Clone":
		s := args[0]
		base := e.freshBase()
		e.copyBytes(st, base, e.k64(0), s.L[0], s.L[1], s.L[2])
		nb := c.Ite(c.Eq(s.L[2], e.k64(0)), e.k64(0), base)
		// a clone has the content of its source (content ids are what string equality compares)
		clone := Value{T: s.T, L: []*smt.Term{nb, e.k64(0), s.L[2]}}
		e.axiom(c.Eq(e.strID(clone), e.strID(s)))
		return ret(rt(), nb, e.k64(0), s.L[2])
	case "fmt.Errorf", "errors.New":
		// a fresh, non-nil error value whose content is not modelled
		tag := e.typeTag(types.NewPointer(e.errType()))
		return ret(rt(), tag, e.freshBase(), e.k64(0), e.k64(uint64(e.placeForPointee(e.errType()))))
	case "fmt.Sprintf", "fmt.Sprint":
		v := e.symbolic(rt(), "sprintf")
		return &v, st, true
	}
	// locks: by default no-ops (sequential obligations); lock-discipline checks replace them by models
	if strings.HasPrefix(name, "sync.(*Mutex).") || strings.HasPrefix(name, "sync.(*RWMutex).") || strings.HasPrefix(name, "smutex.(*SMutex128).") {
		switch fn.Name() {
		case "Lock", "Unlock", "RLock", "RUnlock":
			e.trust("lock operations are no-ops inside sequential obligations (mutual exclusion is the meta-theorem's job)")
			return nil, st, true
		}
	}
	return nil, nil, false
}

func (e *Engine) errType() types.Type {
	if e.errT == nil {
		e.errT = types.NewNamed(types.NewTypeName(token.NoPos, nil, "opaqueError", nil), types.NewStruct(nil, nil), nil)
	}
	return e.errT
}

// popcount as an exact sum of bits (BV64 result).
func (e *Engine) popcount(x *smt.Term) *smt.Term {
	c := e.C
	w := x.Sort.Width
	// tree sum to keep the term shallow
	parts := make([]*smt.Term, w)
	for i := 0; i < w; i++ {
		parts[i] = c.ZeroExt(c.Extract(x, i, i), 8)
	}
	for len(parts) > 1 {
		var next []*smt.Term
		for i := 0; i+1 < len(parts); i += 2 {
			next = append(next, c.Add(parts[i], parts[i+1]))
		}
		if len(parts)%2 == 1 {
			next = append(next, parts[len(parts)-1])
		}
		parts = next
	}
	return c.ZeroExt(parts[0], 64)
}
