package engine

import (
	"fmt"
	"sort"
	"time"

	"golang.org/x/tools/go/ssa"

	"govc/smt"
)

// loopInfo describes one natural loop of a function.
type loopInfo struct {
	header  *ssa.BasicBlock
	blocks  map[*ssa.BasicBlock]bool
	ordinal int
}

type fnInfo struct {
	rpo    []*ssa.BasicBlock
	rpoIdx map[*ssa.BasicBlock]int
	loops  map[*ssa.BasicBlock]*loopInfo // by header
}

func (w *World) info(fn *ssa.Function) *fnInfo {
	w.mu.Lock()
	defer w.mu.Unlock()
	if fi, ok := w.fnInfos[fn]; ok {
		return fi
	}
	fi := &fnInfo{rpoIdx: map[*ssa.BasicBlock]int{}, loops: map[*ssa.BasicBlock]*loopInfo{}}
	// back edges: u->v with v dominating u
	isBack := func(u, v *ssa.BasicBlock) bool { return v.Dominates(u) }
	// post-order DFS ignoring back edges
	seen := map[*ssa.BasicBlock]bool{}
	var post []*ssa.BasicBlock
	var dfs func(b *ssa.BasicBlock)
	dfs = func(b *ssa.BasicBlock) {
		seen[b] = true
		for _, s := range b.Succs {
			if !seen[s] && !isBack(b, s) {
				dfs(s)
			}
		}
		post = append(post, b)
	}
	if len(fn.Blocks) > 0 {
		dfs(fn.Blocks[0])
	}
	for i := len(post) - 1; i >= 0; i-- {
		fi.rpoIdx[post[i]] = len(fi.rpo)
		fi.rpo = append(fi.rpo, post[i])
	}
	// natural loops
	var headers []*ssa.BasicBlock
	for _, u := range fi.rpo {
		for _, v := range u.Succs {
			if isBack(u, v) {
				li := fi.loops[v]
				if li == nil {
					li = &loopInfo{header: v, blocks: map[*ssa.BasicBlock]bool{v: true}}
					fi.loops[v] = li
					headers = append(headers, v)
				}
				// add nodes reaching u without passing v
				var stack []*ssa.BasicBlock
				if !li.blocks[u] {
					li.blocks[u] = true
					stack = append(stack, u)
				}
				for len(stack) > 0 {
					x := stack[len(stack)-1]
					stack = stack[:len(stack)-1]
					for _, p := range x.Preds {
						if !li.blocks[p] {
							li.blocks[p] = true
							stack = append(stack, p)
						}
					}
				}
			}
		}
	}
	sort.Slice(headers, func(i, j int) bool { return headers[i].Index < headers[j].Index })
	for i, h := range headers {
		fi.loops[h].ordinal = i
	}
	w.fnInfos[fn] = fi
	return fi
}

type edgeState struct {
	st   *State
	from *ssa.BasicBlock
}

// region execution result
type regionOut struct {
	exits map[*ssa.BasicBlock][]edgeState // states leaving the region, by target
	back  []edgeState                     // states on back edges to the region header
	rets  []retState
}

type retState struct {
	st   *State
	vals []Value
}

type frame struct {
	fn   *ssa.Function
	info *fnInfo
	rets []retState
}

// execBody runs fn's body from st (whose env must already bind params and free vars).
func (e *Engine) execBody(fn *ssa.Function, st *State) []retState {
	fi := e.W.info(fn)
	fr := &frame{fn: fn, info: fi}
	all := map[*ssa.BasicBlock]bool{}
	for _, b := range fi.rpo {
		all[b] = true
	}
	out := e.runRegion(fr, all, nil, fn.Blocks[0], []edgeState{{st: st}})
	if len(out.back) > 0 || len(out.exits) > 0 {
		panic("internal: top region has exits")
	}
	return fr.rets
}

// runRegion executes the blocks in `blocks` (RPO order) starting with `entry` receiving `init`.
// header != nil marks a loop body region: edges to header are collected as back edges.
func (e *Engine) runRegion(fr *frame, blocks map[*ssa.BasicBlock]bool, header *ssa.BasicBlock, entry *ssa.BasicBlock, init []edgeState) *regionOut {
	out := &regionOut{exits: map[*ssa.BasicBlock][]edgeState{}}
	in := map[*ssa.BasicBlock][]edgeState{entry: init}
	skip := map[*ssa.BasicBlock]bool{}
	deliver := func(from, to *ssa.BasicBlock, st *State) {
		if st == nil || e.dead(st) {
			return
		}
		es := edgeState{st: st, from: from}
		switch {
		case header != nil && to == header:
			out.back = append(out.back, es)
		case !blocks[to]:
			out.exits[to] = append(out.exits[to], es)
		default:
			in[to] = append(in[to], es)
		}
	}
	for _, b := range fr.info.rpo {
		if !blocks[b] || skip[b] {
			continue
		}
		arrivals := in[b]
		if len(arrivals) == 0 {
			continue
		}
		// inner loop?
		if li, ok := fr.info.loops[b]; ok && b != header {
			for lb := range li.blocks {
				skip[lb] = true
			}
			e.runLoop(fr, li, arrivals, deliver)
			continue
		}
		if e.paths {
			for _, a := range arrivals {
				st := e.enterBlock(b, []edgeState{a})
				if st == nil {
					continue
				}
				e.runBlock(fr, b, 0, st, deliver)
			}
			continue
		}
		st := e.enterBlock(b, arrivals)
		if st == nil {
			continue
		}
		e.runBlock(fr, b, 0, st, deliver)
	}
	return out
}

// enterBlock evaluates phis per incoming edge and merges the arrivals.
func (e *Engine) enterBlock(b *ssa.BasicBlock, arrivals []edgeState) *State {
	var states []*State
	for _, a := range arrivals {
		st := a.st
		if a.from != nil {
			idx := -1
			for i, p := range b.Preds {
				if p == a.from {
					idx = i
					break
				}
			}
			var phis []*ssa.Phi
			for _, ins := range b.Instrs {
				if p, ok := ins.(*ssa.Phi); ok {
					phis = append(phis, p)
				} else {
					break
				}
			}
			if len(phis) > 0 {
				st = st.clone()
				vals := make([]Value, len(phis))
				for i, p := range phis {
					vals[i] = e.operand(a.st, p.Edges[idx])
				}
				for i, p := range phis {
					st.env[p] = vals[i]
				}
			}
		}
		states = append(states, st)
	}
	return e.mergeStates(states)
}

func (e *Engine) runBlock(fr *frame, b *ssa.BasicBlock, from int, st *State, deliver func(from, to *ssa.BasicBlock, st *State)) {
	for i := from; i < len(b.Instrs); i++ {
		ins := b.Instrs[i]
		if _, ok := ins.(*ssa.Phi); ok {
			continue
		}
		e.steps++
		if e.steps > e.W.MaxSteps {
			panic(unsupported("step budget exceeded"))
		}
		if e.steps%64 == 0 && time.Now().After(e.deadline) {
			panic(unsupported("generation time budget exceeded"))
		}
		switch t := ins.(type) {
		case *ssa.If:
			cond := e.operand(st, t.Cond).L[0]
			ts, fs := st.clone(), st
			e.assume(ts, cond)
			e.assume(fs, e.C.Not(cond))
			if e.paths && !cond.IsTrue() && !cond.IsFalse() {
				// at least one side is possible when the state before the branch was
				if !e.feasible(ts) {
					ts = nil
				} else if !e.feasible(fs) {
					fs = nil
				}
			}
			deliver(b, b.Succs[0], ts)
			deliver(b, b.Succs[1], fs)
			return
		case *ssa.Jump:
			deliver(b, b.Succs[0], st)
			return
		case *ssa.Return:
			vals := make([]Value, len(t.Results))
			for i, r := range t.Results {
				vals[i] = e.operand(st, r)
			}
			fr.rets = append(fr.rets, retState{st: st, vals: vals})
			return
		case *ssa.Panic:
			e.panicReached(st, fmt.Sprintf("explicit panic at %s", e.posStr(t.Pos())), t.Pos())
			return
		default:
			st = e.execInstr(fr, st, ins)
			// path mode: a call may have produced several outcomes; each continues this block on its own
			if extra := e.pending; len(extra) > 0 {
				e.pending = nil
				for _, x := range extra {
					xs := x.st
					if xs == nil || e.dead(xs) {
						continue
					}
					if x.val != nil {
						if v, ok := ins.(ssa.Value); ok {
							xs.env[v] = *x.val
						}
					}
					e.runBlock(fr, b, i+1, xs, deliver)
				}
			}
			if st == nil || e.dead(st) {
				return
			}
		}
	}
}

type callOut struct {
	val *Value
	st  *State
}

// runLoop handles an inner loop according to its spec.
func (e *Engine) runLoop(fr *frame, li *loopInfo, arrivals []edgeState, deliver func(from, to *ssa.BasicBlock, st *State)) {
	key := fmt.Sprintf("%s#%d", fnKey(fr.fn), li.ordinal)
	spec, ok := e.W.Loops[key]
	if !ok {
		// default: a short loop is unrolled; needing more iterations fails the unwinding obligation (never a silent cut)
		spec = &LoopSpec{Key: key, Unroll: e.W.DefaultUnroll}
	}
	if spec.Contract != nil {
		e.runLoopInvariant(fr, li, spec, arrivals, deliver)
		return
	}
	cur := arrivals
	for k := 0; k < spec.Unroll; k++ {
		if len(cur) == 0 {
			break
		}
		if k > 0 {
			// ask the solver whether another iteration is possible at all before exploring it
			var live []edgeState
			for _, es := range cur {
				if e.feasible(es.st) {
					live = append(live, es)
				}
			}
			cur = live
			if len(cur) == 0 {
				break
			}
		}
		out := e.runRegion(fr, li.blocks, li.header, li.header, cur)
		for to, ess := range out.exits {
			for _, es := range ess {
				deliver(es.from, to, es.st)
			}
		}
		cur = out.back
	}
	// unwinding assertion: no state may still want another iteration
	for _, es := range cur {
		if spec.Bounded {
			e.note("loop %s cut after %d iterations (bounded, not a proof)", key, spec.Unroll)
			continue
		}
		e.oblige(es.st, "unwind:"+key, KindUnwind, e.C.False(), li.header.Instrs[0].Pos(),
			fmt.Sprintf("loop %s needs more than %d iterations", key, spec.Unroll))
	}
}

func fnKey(fn *ssa.Function) string {
	// e.g. "(*github.com/kelindar/column/commit.Buffer).writeOffset" -> "commit.(*Buffer).writeOffset"
	return shortFn(fn)
}

// feasible asks the first solver (briefly) whether the state's path condition is satisfiable; unknown counts as feasible.
func (e *Engine) feasible(st *State) bool {
	if e.dead(st) {
		return false
	}
	q := &smt.Query{}
	q.Asserts = append(q.Asserts, e.axioms...)
	for _, p := range st.pc {
		// quantified literals are left out: feasibility is only used to prune, so an over-approximation is sound, and
		// they are what makes these (many, small) queries slow
		if !e.C.HasQuantifier(p) {
			q.Asserts = append(q.Asserts, p)
		}
	}
	if e.C.Size(q) < 40 {
		return true
	}
	key := ctxKey(st.pc)
	if v, ok := e.feasMemo[key]; ok {
		return v
	}
	t0 := time.Now()
	res := e.feasible1(st, q)
	e.feasSec += time.Since(t0).Seconds()
	e.feasN++
	e.feasMemo[key] = res
	return res
}

func (e *Engine) feasible1(st *State, q *smt.Query) bool {
	if e.paths {
		if e.session == nil && !e.sessionTried {
			e.sessionTried = true
			e.session = e.C.NewSession(3000)
		}
		if e.session != nil {
			// axioms are asserted per call as well (new ones appear as execution proceeds)
			r := e.session.Check(q.Asserts)
			return r != smt.Unsat
		}
	}
	var cubes [][]*smt.Term
	if !e.paths {
		cubes = e.cubes(st.pc, 32)
	}
	e.feasCalls++
	dir := e.W.TmpDir
	if dir == "" {
		return true
	}
	solvers := smt.DefaultSolvers(5)[:1]
	if len(cubes) > 1 {
		for i, cube := range cubes {
			sq := &smt.Query{}
			deadCube := false
			for _, a := range q.Asserts {
				s := e.C.AssumeTrue(a, cube)
				if s.IsFalse() {
					deadCube = true
					break
				}
				if !s.IsTrue() {
					sq.Asserts = append(sq.Asserts, s)
				}
			}
			if deadCube {
				continue
			}
			sq.Asserts = append(sq.Asserts, cube...)
			r := smt.SolveText(e.C.Print(sq, false), "", 0, solvers, dir, fmt.Sprintf("%s.feas%d.%d", e.harness.Name, e.feasCalls, i), 5, 1)
			if r.Status != smt.Unsat {
				return true
			}
		}
		return false
	}
	r := smt.SolveText(e.C.Print(q, false), "", 0, solvers, dir, fmt.Sprintf("%s.feas%d", e.harness.Name, e.feasCalls), 5, 1)
	return r.Status != smt.Unsat
}
