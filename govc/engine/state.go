package engine

import (
	"fmt"
	"go/token"
	"go/types"

	"golang.org/x/tools/go/ssa"

	"govc/smt"
)

// State is one symbolic state: path condition, registers, heap.
type State struct {
	pc     []*smt.Term
	env    map[ssa.Value]Value
	heap   map[string]*MemNode
	defers []deferred
	// derived lists literals that were added to pc after being proved (assert-then-assume); they are implied by
	// the rest of pc and are left out of vacuity covers.
	derived []*smt.Term
}

type deferred struct {
	call *ssa.CallCommon
	fn   Value
	args []Value
	pos  token.Pos
	site ssa.Instruction
}

func (s *State) clone() *State {
	n := &State{pc: s.pc[:len(s.pc):len(s.pc)], env: make(map[ssa.Value]Value, len(s.env)+8), heap: make(map[string]*MemNode, len(s.heap)+4)}
	for k, v := range s.env {
		n.env[k] = v
	}
	for k, v := range s.heap {
		n.heap[k] = v
	}
	n.defers = s.defers[:len(s.defers):len(s.defers)]
	n.derived = s.derived[:len(s.derived):len(s.derived)]
	return n
}

// fork shares env (used across a call boundary where the callee gets its own env).
func (s *State) withEnv(env map[ssa.Value]Value) *State {
	return &State{pc: s.pc, env: env, heap: s.heap, defers: nil, derived: s.derived}
}

// assumeStated: an assumption a contract states (vAssume, a precondition, an assumed postcondition, an invariant).
// Where every conjunct of the path condition is itself such an assumption stated unconditionally, the new one holds
// on every path from here on and may teach the simplifier bounds (learnBounds).
func (e *Engine) assumeStated(st *State, t *smt.Term) {
	top := true
	for _, p := range st.pc {
		if !e.topLits[p.ID] {
			top = false
			break
		}
	}
	if top {
		e.markTop(t)
	}
	e.assume(st, t)
}

func (e *Engine) markTop(t *smt.Term) {
	if t.Op == smt.OAnd {
		for _, a := range t.Args {
			e.markTop(a)
		}
		return
	}
	e.topLits[t.ID] = true
}

func (e *Engine) assume(st *State, t *smt.Term) {
	if t.IsTrue() {
		return
	}
	if t.Op == smt.OAnd {
		for _, a := range t.Args {
			e.assume(st, a)
		}
		return
	}
	for _, p := range st.pc {
		if p == t {
			return
		}
	}
	st.pc = append(st.pc[:len(st.pc):len(st.pc)], t)
	e.learnBounds(st, t)
}

// learnBounds: an assumed "lo <= v" together with an assumed "v <= hi" (signed, lo and hi of small magnitude)
// makes the variable v a small-magnitude term.
func (e *Engine) learnBounds(st *State, t *smt.Term) {
	if t.Op != smt.OSle && t.Op != smt.OSlt {
		return
	}
	// The simplifier uses what is learnt here wherever the variable occurs (terms are shared between paths), so it
	// must hold on every path: only assumptions stated where no branch condition is in force may teach it.
	for _, p := range st.pc {
		if !e.topLits[p.ID] {
			return
		}
	}
	for _, v := range []*smt.Term{t.Args[0], t.Args[1]} {
		if v.Op != smt.OVar || v.Sort.Width != 64 || e.smallSet[v.ID] {
			continue
		}
		lo, hi := false, false
		for _, p := range st.pc {
			if p.Op != smt.OSle && p.Op != smt.OSlt {
				continue
			}
			if p.Args[1] == v && e.isSmall(p.Args[0]) {
				lo = true
			}
			if p.Args[0] == v && e.isSmall(p.Args[1]) {
				hi = true
			}
		}
		if lo && hi {
			e.markSmall(v)
			for _, p := range st.pc {
				if (p.Op == smt.OSle || p.Op == smt.OSlt) && p.Args[1] == v && e.isNonNeg(p.Args[0]) {
					e.nonNegSet[v.ID] = true
				}
			}
		}
	}
}

func (e *Engine) dead(st *State) bool {
	for _, p := range st.pc {
		if p.IsFalse() {
			return true
		}
	}
	return false
}

func (e *Engine) pcTerm(st *State) *smt.Term { return e.C.And(st.pc...) }

// mergeStates joins states arriving at one program point.
func (e *Engine) mergeStates(states []*State) *State {
	var live []*State
	for _, s := range states {
		if s != nil && !e.dead(s) {
			live = append(live, s)
		}
	}
	if len(live) == 0 {
		return nil
	}
	acc := live[0]
	for _, s := range live[1:] {
		acc = e.merge2(acc, s)
	}
	return acc
}

func (e *Engine) merge2(a, b *State) *State {
	c := e.C
	// common prefix of the conjunct lists
	n := 0
	for n < len(a.pc) && n < len(b.pc) && a.pc[n] == b.pc[n] {
		n++
	}
	// d = deciding side (non-empty, preferably short literal list), o = other side
	d, o := a, b
	if len(a.pc[n:]) == 0 || (len(b.pc[n:]) > 0 && len(b.pc[n:]) < len(a.pc[n:])) {
		d, o = b, a
	}
	ld, lo := d.pc[n:], o.pc[n:]
	if len(ld) == 0 {
		return d // identical path conditions: keep one
	}
	cond := c.And(ld...)
	out := &State{env: make(map[ssa.Value]Value, len(a.env)), heap: make(map[string]*MemNode, len(a.heap))}
	out.pc = append([]*smt.Term{}, a.pc[:n]...)
	disj := c.Or(cond, c.And(lo...))
	if !disj.IsTrue() {
		out.pc = append(out.pc, disj)
	}
	// union without duplicates (both sides usually share almost all of them: concatenating doubles the list per join)
	out.derived = append([]*smt.Term{}, a.derived...)
	if len(b.derived) > 0 {
		seen := make(map[int]bool, len(a.derived))
		for _, d := range a.derived {
			seen[d.ID] = true
		}
		for _, d := range b.derived {
			if !seen[d.ID] {
				seen[d.ID] = true
				out.derived = append(out.derived, d)
			}
		}
	}
	litsO := append([]*smt.Term{}, lo...)
	if len(ld) == 1 {
		litsO = append(litsO, c.Not(ld[0]))
	}
	for k, vd := range d.env {
		vo, ok := o.env[k]
		if !ok || len(vd.L) != len(vo.L) {
			continue
		}
		out.env[k] = e.iteValue(cond, vd, vo)
	}
	for k, md := range d.heap {
		mo, ok := o.heap[k]
		if !ok || md == mo {
			out.heap[k] = md
			continue
		}
		out.heap[k] = e.M.node(MemNode{kind: mMerge, sort: md.sort, la: ld, lb: litsO, a: md, b: mo})
	}
	for k, mo := range o.heap {
		if _, ok := d.heap[k]; !ok {
			out.heap[k] = mo
		}
	}
	// defers: must agree structurally
	if len(a.defers) != len(b.defers) {
		panic(unsupported("join of states with different deferred-call stacks"))
	}
	for i := range d.defers {
		dd, do := d.defers[i], o.defers[i]
		if dd.site != do.site {
			panic(unsupported("join of states with different deferred-call stacks"))
		}
		nd := dd
		nd.args = make([]Value, len(dd.args))
		for j := range dd.args {
			nd.args[j] = e.iteValue(cond, dd.args[j], do.args[j])
		}
		nd.fn = e.iteValue(cond, dd.fn, do.fn)
		out.defers = append(out.defers, nd)
	}
	return out
}

func (e *Engine) iteValue(cond *smt.Term, a, b Value) Value {
	if len(a.L) != len(b.L) {
		panic("iteValue: layout mismatch")
	}
	nl := make([]*smt.Term, len(a.L))
	for i := range a.L {
		if a.L[i] == b.L[i] {
			nl[i] = a.L[i]
		} else {
			nl[i] = e.C.Ite(cond, a.L[i], b.L[i])
		}
	}
	return Value{T: a.T, L: nl}
}

// ---------------------------------------------------------------- heap access

func heapKey(root types.Type, leafIdx int) string {
	return fmt.Sprintf("%s#%d", typeKey(root), leafIdx)
}

func (e *Engine) memFor(st *State, root types.Type, leafIdx int) *MemNode {
	k := heapKey(root, leafIdx)
	if m, ok := st.heap[k]; ok {
		return m
	}
	m := e.initNode(root, leafIdx)
	st.heap[k] = m
	return m
}

func (e *Engine) initNode(root types.Type, leafIdx int) *MemNode {
	k := heapKey(root, leafIdx)
	m, ok := e.initMem[k]
	if !ok {
		lf := e.ly.of(root)[leafIdx]
		n := MemNode{kind: mInit, sort: lf.Sort}
		if lf.Kind == lkPtrMeta && lf.Ptee != nil {
			n.constPtee = e.placeForPointee(lf.Ptee)
		} else {
			n.uf = e.C.DeclFuncInitial("H_"+k, []smt.Sort{bv64, bv64}, lf.Sort)
		}
		m = e.M.node(n)
		e.initMem[k] = m
	}
	return m
}

// placeForPointee is the place id of a standalone object (or slice element) of type t.
func (e *Engine) placeForPointee(t types.Type) int {
	if at, ok := t.Underlying().(*types.Array); ok {
		return e.pl.intern(place{Root: at.Elem(), Off: 0, Ptee: t, ArrayOf: true})
	}
	return e.pl.intern(place{Root: t, Off: 0, Ptee: t})
}
