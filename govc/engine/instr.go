package engine

import (
	"fmt"
	"go/token"
	"go/types"

	"golang.org/x/tools/go/ssa"

	"govc/smt"
)

func (e *Engine) operand(st *State, v ssa.Value) Value {
	switch x := v.(type) {
	case *ssa.Const:
		return e.constValue(x)
	case *ssa.Function:
		return e.funcValue(x, nil)
	case *ssa.Global:
		return e.globalPtr(x)
	case *ssa.Builtin:
		panic(unsupported("builtin used as value: " + x.Name()))
	}
	val, ok := st.env[v]
	if !ok {
		panic(fmt.Sprintf("internal: no value for %s (%T) in %s", v.Name(), v, v.Parent()))
	}
	return val
}

func (e *Engine) funcValue(fn *ssa.Function, bindings []Value) Value {
	var id uint64
	if len(bindings) == 0 {
		// stable id per function
		e.W.mu.Lock()
		if x, ok := e.W.fnIDs[fn]; ok {
			id = x
		} else {
			id = uint64(len(e.W.fnIDs) + 1)
			e.W.fnIDs[fn] = id
		}
		e.W.mu.Unlock()
		if _, ok := e.closures[id]; !ok {
			e.closures[id] = &closure{fn: fn}
		}
	} else {
		e.nextFn++
		id = e.nextFn
		e.closures[id] = &closure{fn: fn, bindings: bindings}
	}
	return Value{T: fn.Signature, L: []*smt.Term{e.k64(id)}}
}

func (e *Engine) globalPtr(g *ssa.Global) Value {
	id, ok := e.globals[g]
	if !ok {
		id = globalStart + uint64(len(e.globals)+1)
		e.globals[g] = id
	}
	pt := g.Type().(*types.Pointer)
	return e.ptrTo(e.k64(id), e.k64(0), e.pl.get(e.placeForPointee(pt.Elem())), g.Type())
}

func (e *Engine) execInstr(fr *frame, st *State, ins ssa.Instruction) *State {
	c := e.C
	switch t := ins.(type) {
	case *ssa.DebugRef:
		return st
	case *ssa.Alloc:
		pt := t.Type().(*types.Pointer)
		st.env[t] = e.newObject(st, pt.Elem(), t.Type())
	case *ssa.BinOp:
		st.env[t] = e.binop(st, t.Op, e.operand(st, t.X), e.operand(st, t.Y), t.Type(), t.Pos())
	case *ssa.UnOp:
		x := e.operand(st, t.X)
		switch t.Op {
		case token.MUL: // load
			e.nilCheck(st, x, t.Pos())
			st.env[t] = e.loadAt(st, x, t.Type())
		case token.NOT:
			st.env[t] = Value{T: t.Type(), L: []*smt.Term{c.Not(x.L[0])}}
		case token.SUB:
			if isFloat(t.Type()) {
				st.env[t] = Value{T: t.Type(), L: []*smt.Term{e.floatUF("fneg", t.Type(), x.L[0])}}
			} else {
				st.env[t] = Value{T: t.Type(), L: []*smt.Term{c.Neg(x.L[0])}}
			}
		case token.XOR:
			st.env[t] = Value{T: t.Type(), L: []*smt.Term{c.BVNot(x.L[0])}}
		default:
			panic(unsupported("unary op " + t.Op.String()))
		}
	case *ssa.Store:
		p := e.operand(st, t.Addr)
		e.nilCheck(st, p, t.Pos())
		e.storeAt(st, p, e.operand(st, t.Val))
	case *ssa.FieldAddr:
		p := e.operand(st, t.X)
		e.nilCheck(st, p, t.Pos())
		st.env[t] = e.fieldAddr(p, t.Field, t.Type())
	case *ssa.Field:
		x := e.operand(st, t.X)
		stt := x.T.Underlying().(*types.Struct)
		s, n := e.ly.fieldRange(stt, t.Field)
		st.env[t] = Value{T: t.Type(), L: x.L[s : s+n]}
	case *ssa.IndexAddr:
		st.env[t] = e.indexAddr(st, e.operand(st, t.X), e.operand(st, t.Index), t.Type(), t.Pos())
	case *ssa.Index:
		x := e.operand(st, t.X)
		idx := e.operand(st, t.Index)
		st.env[t] = e.indexValue(st, x, idx, t.Type(), t.Pos())
	case *ssa.Slice:
		st.env[t] = e.sliceOp(st, t)
	case *ssa.Phi:
		// handled at block entry
	case *ssa.Convert:
		st.env[t] = e.convert(st, e.operand(st, t.X), t.Type(), t.Pos())
	case *ssa.ChangeType:
		x := e.operand(st, t.X)
		st.env[t] = Value{T: t.Type(), L: x.L}
	case *ssa.MakeInterface:
		st.env[t] = e.makeInterface(st, e.operand(st, t.X), t.Type())
	case *ssa.ChangeInterface:
		x := e.operand(st, t.X)
		st.env[t] = Value{T: t.Type(), L: x.L}
	case *ssa.TypeAssert:
		st.env[t] = e.typeAssert(st, t)
	case *ssa.Extract:
		tup := e.operand(st, t.Tuple)
		tt := tup.T.(*types.Tuple)
		off := 0
		for i := 0; i < t.Index; i++ {
			off += len(e.ly.of(tt.At(i).Type()))
		}
		n := len(e.ly.of(tt.At(t.Index).Type()))
		st.env[t] = Value{T: t.Type(), L: tup.L[off : off+n]}
	case *ssa.MakeSlice:
		st.env[t] = e.makeSlice(st, t)
	case *ssa.MakeClosure:
		bs := make([]Value, len(t.Bindings))
		for i, b := range t.Bindings {
			bs[i] = e.operand(st, b)
		}
		v := e.funcValue(t.Fn.(*ssa.Function), bs)
		v.T = t.Type()
		st.env[t] = v
	case *ssa.MakeMap:
		st.env[t] = e.makeMap(st, t.Type())
	case *ssa.MapUpdate:
		e.mapUpdate(st, e.operand(st, t.Map), e.operand(st, t.Key), e.operand(st, t.Value), t.Pos())
	case *ssa.Lookup:
		st.env[t] = e.lookup(st, t)
	case *ssa.Call:
		return e.execCall(fr, st, t)
	case *ssa.Defer:
		d := deferred{call: &t.Call, pos: t.Pos(), site: t}
		if t.Call.IsInvoke() {
			d.fn = e.operand(st, t.Call.Value)
		} else if _, isB := t.Call.Value.(*ssa.Builtin); !isB {
			d.fn = e.operand(st, t.Call.Value)
		}
		for _, a := range t.Call.Args {
			d.args = append(d.args, e.operand(st, a))
		}
		st.defers = append(st.defers[:len(st.defers):len(st.defers)], d)
	case *ssa.RunDefers:
		return e.runDefers(fr, st)
	case *ssa.Go:
		panic(unsupported("go statement"))
	case *ssa.Send, *ssa.Select, *ssa.MakeChan:
		panic(unsupported("channel operation"))
	case *ssa.Range, *ssa.Next:
		panic(unsupported("map/string range"))
	case *ssa.SliceToArrayPointer, *ssa.MultiConvert:
		panic(unsupported(fmt.Sprintf("%T", ins)))
	default:
		panic(unsupported(fmt.Sprintf("instruction %T", ins)))
	}
	return st
}

// ---------------------------------------------------------------- safety obligations

func (e *Engine) nilCheck(st *State, p Value, pos token.Pos) {
	a0 := p.L[0]
	if a0.IsConst() && a0.Val != 0 {
		return
	}
	if _, ok := isFreshBase(a0); ok {
		return
	}
	e.safety(st, "nil", e.C.Ne(a0, e.k64(0)), pos, "nil pointer dereference")
}

func (e *Engine) boundsCheck(st *State, idx, n *smt.Term, pos token.Pos, what string) {
	if e.isNonNeg(idx) && e.C.UltNW(idx, n).IsTrue() {
		return
	}
	e.safety(st, "bounds", e.C.Ult(idx, n), pos, what)
}

// ---------------------------------------------------------------- addressing

func (e *Engine) fieldAddr(p Value, field int, resT types.Type) Value {
	pl := e.placeOf(p, "fieldaddr")
	stt := pl.Ptee.Underlying().(*types.Struct)
	s, _ := e.ly.fieldRange(stt, field)
	ft := stt.Field(field).Type()
	npl := place{Root: pl.Root, Off: pl.Off + s, Ptee: ft}
	return Value{T: resT, L: []*smt.Term{p.L[0], p.L[1], e.k64(uint64(e.pl.intern(npl)))}}
}

func (e *Engine) indexAddr(st *State, x, idx Value, resT types.Type, pos token.Pos) Value {
	c := e.C
	i := e.toInt64(idx)
	switch u := x.T.Underlying().(type) {
	case *types.Slice:
		e.boundsCheck(st, i, x.L[2], pos, "index out of range")
		pl := e.pl.get(e.placeForPointee(u.Elem()))
		if at, ok := u.Elem().Underlying().(*types.Array); ok {
			_ = at
			panic(unsupported("slice of arrays"))
		}
		return Value{T: resT, L: []*smt.Term{x.L[0], c.Add(x.L[1], i), e.k64(uint64(e.pl.intern(pl)))}}
	case *types.Pointer: // pointer to array
		at := u.Elem().Underlying().(*types.Array)
		e.nilCheck(st, x, pos)
		e.boundsCheck(st, i, e.k64(uint64(at.Len())), pos, "index out of range")
		pl := e.placeOf(x, "indexaddr")
		if pl.ArrayOf {
			npl := place{Root: pl.Root, Off: pl.Off, Ptee: at.Elem()}
			return Value{T: resT, L: []*smt.Term{x.L[0], c.Add(x.L[1], i), e.k64(uint64(e.pl.intern(npl)))}}
		}
		// array embedded in an object: constant index only
		if !i.IsConst() {
			panic(unsupported("symbolic index into an array embedded in a struct"))
		}
		nl := len(e.ly.of(at.Elem()))
		npl := place{Root: pl.Root, Off: pl.Off + int(i.Val)*nl, Ptee: at.Elem()}
		return Value{T: resT, L: []*smt.Term{x.L[0], x.L[1], e.k64(uint64(e.pl.intern(npl)))}}
	}
	panic(unsupported("IndexAddr on " + x.T.String()))
}

func (e *Engine) toInt64(v Value) *smt.Term {
	t := v.L[0]
	return e.C.Resize(t, 64, isSigned(v.T))
}

func (e *Engine) indexValue(st *State, x, idx Value, resT types.Type, pos token.Pos) Value {
	i := e.toInt64(idx)
	switch u := x.T.Underlying().(type) {
	case *types.Basic: // string
		e.boundsCheck(st, i, x.L[2], pos, "string index out of range")
		m := e.memFor(st, types.Typ[types.Uint8], 0)
		return Value{T: resT, L: []*smt.Term{e.M.read(m, x.L[0], e.C.Add(x.L[1], i))}}
	case *types.Array:
		if !i.IsConst() {
			panic(unsupported("symbolic index into array value"))
		}
		nl := len(e.ly.of(u.Elem()))
		return Value{T: resT, L: x.L[int(i.Val)*nl : (int(i.Val)+1)*nl]}
	}
	panic(unsupported("Index on " + x.T.String()))
}

func (e *Engine) sliceOp(st *State, t *ssa.Slice) Value {
	c := e.C
	x := e.operand(st, t.X)
	var lo, hi, max *smt.Term
	if t.Low != nil {
		lo = e.toInt64(e.operand(st, t.Low))
	} else {
		lo = e.k64(0)
	}
	if t.High != nil {
		hi = e.toInt64(e.operand(st, t.High))
	}
	if t.Max != nil {
		max = e.toInt64(e.operand(st, t.Max))
	}
	switch u := x.T.Underlying().(type) {
	case *types.Slice:
		if hi == nil {
			hi = x.L[2]
		}
		capv := x.L[3]
		if max != nil {
			e.safety(st, "bounds", c.Ule(max, capv), t.Pos(), "slice bounds out of range (max)")
			e.safety(st, "bounds", c.Ule(hi, max), t.Pos(), "slice bounds out of range (high>max)")
		} else if !c.UleNW(hi, x.L[2]).IsTrue() { // hi <= len suffices, since len <= cap
			e.safety(st, "bounds", c.Ule(hi, capv), t.Pos(), "slice bounds out of range (high)")
		}
		if !c.UleNW(lo, hi).IsTrue() {
			e.safety(st, "bounds", c.Ule(lo, hi), t.Pos(), "slice bounds out of range (low>high)")
		}
		ncap := c.Sub(capv, lo)
		if max != nil {
			ncap = c.Sub(max, lo)
		}
		return Value{T: t.Type(), L: []*smt.Term{x.L[0], c.Add(x.L[1], lo), c.Sub(hi, lo), ncap}}
	case *types.Basic: // string
		if hi == nil {
			hi = x.L[2]
		}
		e.safety(st, "bounds", c.Ule(hi, x.L[2]), t.Pos(), "string slice bounds out of range (high)")
		e.safety(st, "bounds", c.Ule(lo, hi), t.Pos(), "string slice bounds out of range (low>high)")
		return Value{T: t.Type(), L: []*smt.Term{x.L[0], c.Add(x.L[1], lo), c.Sub(hi, lo)}}
	case *types.Pointer: // pointer to array
		at := u.Elem().Underlying().(*types.Array)
		e.nilCheck(st, x, t.Pos())
		pl := e.placeOf(x, "slice of array")
		if !pl.ArrayOf {
			panic(unsupported("slicing an array embedded in a struct"))
		}
		n := e.k64(uint64(at.Len()))
		if hi == nil {
			hi = n
		}
		capv := n
		if max != nil {
			e.safety(st, "bounds", c.Ule(max, n), t.Pos(), "slice bounds out of range (max)")
			capv = max
		}
		e.safety(st, "bounds", c.Ule(hi, capv), t.Pos(), "slice bounds out of range (high)")
		e.safety(st, "bounds", c.Ule(lo, hi), t.Pos(), "slice bounds out of range (low>high)")
		return Value{T: t.Type(), L: []*smt.Term{x.L[0], c.Add(x.L[1], lo), c.Sub(hi, lo), c.Sub(capv, lo)}}
	}
	panic(unsupported("Slice on " + x.T.String()))
}

func (e *Engine) makeSlice(st *State, t *ssa.MakeSlice) Value {
	c := e.C
	elem := t.Type().Underlying().(*types.Slice).Elem()
	n := e.toInt64(e.operand(st, t.Len))
	cp := e.toInt64(e.operand(st, t.Cap))
	e.safety(st, "bounds", c.And(c.Ule(n, cp), c.Ult(cp, e.k64(maxLen))), t.Pos(), "makeslice: len/cap out of range")
	base := e.allocZero(st, elem)
	return Value{T: t.Type(), L: []*smt.Term{base, e.k64(0), n, cp}}
}

// ---------------------------------------------------------------- arithmetic

func (e *Engine) binop(st *State, op token.Token, x, y Value, resT types.Type, pos token.Pos) Value {
	c := e.C
	one := func(t *smt.Term) Value { return Value{T: resT, L: []*smt.Term{t}} }
	xt := x.T
	// comparisons
	switch op {
	case token.EQL, token.NEQ:
		eq := e.valuesEqual(st, x, y)
		if op == token.NEQ {
			eq = c.Not(eq)
		}
		return one(eq)
	}
	if isString(xt) {
		switch op {
		case token.ADD:
			return e.stringConcat(st, x, y, resT)
		case token.LSS, token.LEQ, token.GTR, token.GEQ:
			return one(e.stringCompare(st, op, x, y))
		}
		panic(unsupported("string op " + op.String()))
	}
	if isBool(xt) {
		panic(unsupported("bool binop " + op.String()))
	}
	a, b := x.L[0], y.L[0]
	if isFloat(xt) {
		switch op {
		case token.ADD:
			return one(e.floatUF("fadd", xt, a, b))
		case token.SUB:
			return one(e.floatUF("fsub", xt, a, b))
		case token.MUL:
			return one(e.floatUF("fmul", xt, a, b))
		case token.QUO:
			return one(e.floatUF("fdiv", xt, a, b))
		case token.LSS:
			return one(e.floatPred("flt", xt, a, b))
		case token.LEQ:
			return one(e.floatPred("fle", xt, a, b))
		case token.GTR:
			return one(e.floatPred("flt", xt, b, a))
		case token.GEQ:
			return one(e.floatPred("fle", xt, b, a))
		}
		panic(unsupported("float op " + op.String()))
	}
	signed := isSigned(xt)
	w := a.Sort.Width
	switch op {
	case token.ADD:
		return one(c.Add(a, b))
	case token.SUB:
		return one(c.Sub(a, b))
	case token.MUL:
		return one(c.Mul(a, b))
	case token.QUO, token.REM:
		e.safety(st, "div", c.Ne(b, c.Const(0, w)), pos, "integer divide by zero")
		if signed {
			if op == token.QUO {
				return one(c.Bin(smt.OSDiv, a, b))
			}
			return one(c.Bin(smt.OSRem, a, b))
		}
		if op == token.QUO {
			return one(c.Bin(smt.OUDiv, a, b))
		}
		return one(c.Bin(smt.OURem, a, b))
	case token.AND:
		return one(c.Bin(smt.OBVAnd, a, b))
	case token.OR:
		return one(c.Bin(smt.OBVOr, a, b))
	case token.XOR:
		return one(c.Bin(smt.OBVXor, a, b))
	case token.AND_NOT:
		return one(c.Bin(smt.OBVAnd, a, c.BVNot(b)))
	case token.SHL, token.SHR:
		// shift count: unsigned or (checked) signed; Go semantics: count >= width gives 0 (or sign fill)
		bw := b.Sort.Width
		if isSigned(y.T) {
			e.safety(st, "shift", c.Sle(c.Const(0, bw), b), pos, "negative shift amount")
		}
		var cnt *smt.Term
		big := c.False()
		if bw > w {
			big = c.Ule(c.Const(uint64(w), bw), b)
			cnt = c.Extract(b, w-1, 0)
		} else {
			cnt = c.ZeroExt(b, w)
			big = c.Ule(c.Const(uint64(w), w), cnt)
		}
		switch {
		case op == token.SHL:
			return one(c.Ite(big, c.Const(0, w), c.Bin(smt.OShl, a, cnt)))
		case signed:
			return one(c.Ite(big, c.Bin(smt.OAshr, a, c.Const(uint64(w-1), w)), c.Bin(smt.OAshr, a, cnt)))
		default:
			return one(c.Ite(big, c.Const(0, w), c.Bin(smt.OLshr, a, cnt)))
		}
	case token.LSS:
		if signed {
			return one(c.Slt(a, b))
		}
		return one(c.Ult(a, b))
	case token.LEQ:
		if signed {
			return one(c.Sle(a, b))
		}
		return one(c.Ule(a, b))
	case token.GTR:
		if signed {
			return one(c.Slt(b, a))
		}
		return one(c.Ult(b, a))
	case token.GEQ:
		if signed {
			return one(c.Sle(b, a))
		}
		return one(c.Ule(b, a))
	}
	panic(unsupported("binop " + op.String()))
}

func (e *Engine) floatUF(name string, t types.Type, args ...*smt.Term) *smt.Term {
	w := args[0].Sort.Width
	sorts := make([]smt.Sort, len(args))
	for i := range args {
		sorts[i] = args[i].Sort
	}
	f := e.C.DeclFunc(fmt.Sprintf("%s%d", name, w), sorts, smt.BV(w))
	e.trust("float arithmetic is uninterpreted (" + name + ")")
	return e.C.App(f, args...)
}

func (e *Engine) floatPred(name string, t types.Type, args ...*smt.Term) *smt.Term {
	w := args[0].Sort.Width
	sorts := make([]smt.Sort, len(args))
	for i := range args {
		sorts[i] = args[i].Sort
	}
	f := e.C.DeclFunc(fmt.Sprintf("%s%d", name, w), sorts, smt.BoolSort)
	e.trust("float comparison is uninterpreted (" + name + ")")
	return e.C.App(f, args...)
}

// valuesEqual implements Go == on flattened values.
func (e *Engine) valuesEqual(st *State, x, y Value) *smt.Term {
	c := e.C
	xt := x.T
	if xt == nil || len(x.L) == 0 && len(y.L) > 0 {
		xt = y.T
	}
	switch u := xt.Underlying().(type) {
	case *types.Basic:
		if u.Info()&types.IsString != 0 {
			return e.stringEq(st, x, y)
		}
		if u.Info()&types.IsFloat != 0 {
			return e.floatPred("feq", xt, x.L[0], y.L[0])
		}
		if u.Kind() == types.UnsafePointer {
			if len(y.L) == 0 || isNilConst(y) {
				return c.Eq(x.L[0], e.k64(0))
			}
			if len(x.L) == 0 || isNilConst(x) {
				return c.Eq(y.L[0], e.k64(0))
			}
			return c.And(c.Eq(x.L[0], y.L[0]), c.Eq(x.L[1], y.L[1]))
		}
		if len(x.L) == 0 || len(y.L) == 0 {
			panic(unsupported("comparison with untyped nil of basic type"))
		}
		return c.Eq(x.L[0], y.L[0])
	case *types.Pointer:
		// nil is the object identity 0
		if isNilConst(y) {
			return c.Eq(x.L[0], e.k64(0))
		}
		if isNilConst(x) {
			return c.Eq(y.L[0], e.k64(0))
		}
		// identity: same object and same position; place ids compared when both known
		eq := c.And(c.Eq(x.L[0], y.L[0]), c.Eq(x.L[1], y.L[1]))
		if x.L[2].IsConst() && y.L[2].IsConst() && x.L[2].Val != 0 && y.L[2].Val != 0 && x.L[2] != y.L[2] {
			px, py := e.pl.get(int(x.L[2].Val)), e.pl.get(int(y.L[2].Val))
			if typeKey(px.Root) == typeKey(py.Root) && px.Off != py.Off {
				return c.False()
			}
		}
		return eq
	case *types.Slice: // only comparable to nil
		if len(y.L) == 0 || isNilConst(y) {
			return c.Eq(x.L[0], e.k64(0))
		}
		if isNilConst(x) {
			return c.Eq(y.L[0], e.k64(0))
		}
		panic(unsupported("slice comparison"))
	case *types.Map, *types.Chan, *types.Signature:
		return c.Eq(x.L[0], y.L[0])
	case *types.Interface:
		// equal dynamic type and equal payload identity (pointer payloads; boxed scalars compare by box content when both boxed consts)
		return e.ifaceEq(st, x, y)
	case *types.Struct:
		acc := c.True()
		off := 0
		for i := 0; i < u.NumFields(); i++ {
			n := len(e.ly.of(u.Field(i).Type()))
			fx := Value{T: u.Field(i).Type(), L: x.L[off : off+n]}
			fy := Value{T: u.Field(i).Type(), L: y.L[off : off+n]}
			acc = c.And(acc, e.valuesEqual(st, fx, fy))
			off += n
		}
		return acc
	case *types.Array:
		acc := c.True()
		n := len(e.ly.of(u.Elem()))
		for i := 0; i < int(u.Len()); i++ {
			acc = c.And(acc, e.valuesEqual(st, Value{T: u.Elem(), L: x.L[i*n : (i+1)*n]}, Value{T: u.Elem(), L: y.L[i*n : (i+1)*n]}))
		}
		return acc
	}
	panic(unsupported("equality on " + xt.String()))
}

func isNilConst(v Value) bool {
	for _, l := range v.L {
		if !l.IsConst() || l.Val != 0 {
			return false
		}
	}
	return true
}

// ---------------------------------------------------------------- conversions

func (e *Engine) convert(st *State, x Value, to types.Type, pos token.Pos) Value {
	c := e.C
	from := x.T
	fu, tu := from.Underlying(), to.Underlying()
	fb, fok := fu.(*types.Basic)
	tb, tok := tu.(*types.Basic)
	switch {
	case fok && tok && fb.Info()&types.IsInteger != 0 && tb.Info()&types.IsInteger != 0:
		return Value{T: to, L: []*smt.Term{c.Resize(x.L[0], basicWidth(tb), isSigned(from))}}
	case fok && tok && fb.Info()&types.IsFloat != 0 && tb.Info()&types.IsFloat != 0:
		if basicWidth(fb) == basicWidth(tb) {
			return Value{T: to, L: x.L}
		}
		f := c.DeclFunc(fmt.Sprintf("fcvt%dto%d", basicWidth(fb), basicWidth(tb)), []smt.Sort{x.L[0].Sort}, smt.BV(basicWidth(tb)))
		e.trust("float width conversion is uninterpreted")
		return Value{T: to, L: []*smt.Term{c.App(f, x.L[0])}}
	case fok && tok && fb.Info()&types.IsInteger != 0 && tb.Info()&types.IsFloat != 0:
		sg := "u"
		if isSigned(from) {
			sg = "s"
		}
		f := c.DeclFunc(fmt.Sprintf("%sitof%dto%d", sg, basicWidth(fb), basicWidth(tb)), []smt.Sort{x.L[0].Sort}, smt.BV(basicWidth(tb)))
		e.trust("int-to-float conversion is uninterpreted")
		return Value{T: to, L: []*smt.Term{c.App(f, x.L[0])}}
	case fok && tok && fb.Info()&types.IsFloat != 0 && tb.Info()&types.IsInteger != 0:
		sg := "u"
		if isSigned(to) {
			sg = "s"
		}
		f := c.DeclFunc(fmt.Sprintf("ftoi%s%dto%d", sg, basicWidth(fb), basicWidth(tb)), []smt.Sort{x.L[0].Sort}, smt.BV(basicWidth(tb)))
		e.trust("float-to-int conversion is uninterpreted")
		return Value{T: to, L: []*smt.Term{c.App(f, x.L[0])}}
	case isString(to) && isByteSlice(from):
		// string(bytes): fresh immutable copy
		base := e.freshBase()
		e.copyBytes(st, base, e.k64(0), x.L[0], x.L[1], x.L[2])
		nb := c.Ite(c.Eq(x.L[2], e.k64(0)), e.k64(0), base)
		// the copy has the content of the bytes it was made from (content ids are what string equality compares; the id
		// of a byte view stands for its bytes at this moment - views are not compared across writes in the contracts)
		sv := Value{T: to, L: []*smt.Term{nb, e.k64(0), x.L[2]}}
		e.axiom(c.Eq(e.strID(sv), e.strID(Value{T: to, L: []*smt.Term{x.L[0], x.L[1], x.L[2]}})))
		return sv
	case isByteSlice(to) && isString(from):
		base := e.freshBase()
		e.copyBytes(st, base, e.k64(0), x.L[0], x.L[1], x.L[2])
		return Value{T: to, L: []*smt.Term{base, e.k64(0), x.L[2], x.L[2]}}
	case isPointer(from) && isPointer(to):
		// unsafe.Pointer <-> *T : keep identity; reinterpretation is handled where it is used
		l := []*smt.Term{x.L[0], x.L[1], x.L[2]}
		return Value{T: to, L: l}
	}
	panic(unsupported(fmt.Sprintf("conversion %s -> %s", from, to)))
}

func isByteSlice(t types.Type) bool {
	s, ok := t.Underlying().(*types.Slice)
	if !ok {
		return false
	}
	b, ok := s.Elem().Underlying().(*types.Basic)
	return ok && b.Kind() == types.Uint8
}

// copyBytes records dst[doff .. doff+n) = src[soff ..) in the byte heap.
func (e *Engine) copyBytes(st *State, dbase, doff, sbase, soff, n *smt.Term) {
	e.copyCells(st, types.Typ[types.Uint8], dbase, doff, sbase, soff, n)
}

func (e *Engine) copyCells(st *State, elem types.Type, dbase, doff, sbase, soff, n *smt.Term) {
	if n.IsConst() && n.Val == 0 {
		return
	}
	for j := range e.ly.of(elem) {
		k := heapKey(elem, j)
		m := e.memFor(st, elem, j)
		if n.IsConst() && n.Val <= 16 {
			// small constant copies become point stores (read first, then write)
			vals := make([]*smt.Term, n.Val)
			for i := uint64(0); i < n.Val; i++ {
				vals[i] = e.M.read(m, sbase, e.C.Add(soff, e.k64(i)))
			}
			cur := m
			for i := uint64(0); i < n.Val; i++ {
				cur = e.M.store(cur, dbase, e.C.Add(doff, e.k64(i)), vals[i])
			}
			st.heap[k] = cur
			continue
		}
		st.heap[k] = e.M.node(MemNode{kind: mCopy, prev: m, sort: m.sort, a0: dbase, a1: doff, n: n, src: m, s0: sbase, s1: soff})
	}
}
