package engine

import (
	"fmt"
	"go/token"
	"go/types"
	"os"
	"runtime/debug"
	"sort"
	"strings"
	"sync"
	"time"

	"golang.org/x/tools/go/ssa"

	"govc/smt"
)

type OblKind string

const (
	KindAssert  OblKind = "assert"
	KindEnsures OblKind = "ensures"
	KindPre     OblKind = "call-requires"
	KindSafety  OblKind = "safety"
	KindPanic   OblKind = "no-panic"
	KindUnwind  OblKind = "unwind"
	KindInv     OblKind = "invariant"
	KindStep    OblKind = "step"
	KindCover   OblKind = "cover" // must be satisfiable (vacuity guard)
)

// Obligation is one verification condition: under PC (and the axioms), Goal must hold.
type Obligation struct {
	Retried bool // left undecided in the parallel round and retried alone
	Name    string
	Kind    OblKind
	Harness string
	Pos     string
	Msg     string
	PC      []*smt.Term
	Goal    *smt.Term
	Inputs  []InputVar

	// results
	Status     string // discharged | failed | undecided | trivially-true | covered | vacuous
	Solver     string
	Seconds    float64
	Size       int
	Output     string
	Model      map[string]string
	Others     map[string]string
	ctx        *Engine
	textStd    string
	textCVC    string
	nvals      int
	subs       []subQuery
	full       *smt.Query
	skolemized bool
	failQ      *smt.Query
	Cases      int
	FailText   string
}

type InputVar struct {
	Name string
	Term *smt.Term
}

func (e *Engine) note(format string, args ...interface{}) {
	e.notes = append(e.notes, fmt.Sprintf(format, args...))
}

func (e *Engine) oblige(st *State, label string, kind OblKind, goal *smt.Term, pos token.Pos, msg string) {
	if e.dead(st) {
		return
	}
	name := e.harness.Name + "#" + label
	// disambiguate repeated labels (same label reached at several sites/paths)
	n := 0
	for _, o := range e.obls {
		if o.Name == name || strings.HasPrefix(o.Name, name+"@") {
			n++
		}
	}
	if n > 0 {
		name = fmt.Sprintf("%s@%d", name, n+1)
	}
	o := &Obligation{Name: name, Kind: kind, Harness: e.harness.Name, Pos: e.posStr(pos), Msg: msg,
		PC: e.oblPC(st), Goal: goal, ctx: e}
	e.obls = append(e.obls, o)
	// after asserting, assume (first failure is what is reported)
	if kind != KindCover {
		e.assume(st, goal)
		st.derived = st.derived[:len(st.derived):len(st.derived)]
		var add func(t *smt.Term)
		add = func(t *smt.Term) {
			if t.Op == smt.OAnd {
				for _, a := range t.Args {
					add(a)
				}
				return
			}
			st.derived = append(st.derived, t)
		}
		add(goal)
	}
}

// safety obligations are generated automatically; trivially true ones are dropped.
func (e *Engine) safety(st *State, cls string, goal *smt.Term, pos token.Pos, msg string) {
	if goal.IsTrue() || e.dead(st) {
		return
	}
	for _, p := range st.pc {
		if p == goal {
			return
		}
	}
	for i := len(e.callStack) - 1; i >= 0; i-- {
		if why, ok := e.W.MayPanic[e.callStack[i]]; ok {
			e.trust("declared maypanic: " + e.callStack[i] + " (" + why + ")")
			e.assume(st, goal)
			return
		}
	}
	e.safetySeq++
	e.oblige(st, fmt.Sprintf("safety:%s.%d", cls, e.safetySeq), KindSafety, goal, pos, msg+" in "+e.where())
}

func (e *Engine) where() string {
	if len(e.callStack) == 0 {
		return e.harness.Name
	}
	return e.callStack[len(e.callStack)-1]
}

func (e *Engine) panicReached(st *State, msg string, pos token.Pos) {
	if e.dead(st) {
		return
	}
	for i := len(e.callStack) - 1; i >= 0; i-- {
		if why, ok := e.W.MayPanic[e.callStack[i]]; ok {
			e.trust("declared maypanic: " + e.callStack[i] + " (" + why + ")")
			return // path is simply not continued
		}
	}
	e.safetySeq++
	e.oblige(st, fmt.Sprintf("safety:panic.%d", e.safetySeq), KindPanic, e.C.False(), pos, msg+" in "+e.where())
}

// ---------------------------------------------------------------- running a harness

type HarnessResult struct {
	Harness *Harness
	Obls    []*Obligation
	Err     string // engine could not process the harness (outside subset) — never a pass
	Notes   []string
	Trusted []string
	RealFns []string // functions of /repo executed from their real bodies
	Steps   int
	Reads   int
	ExecSec float64
	engine  *Engine
}

// Generate symbolically executes the harness and returns its obligations (not yet discharged).
func (w *World) Generate(h *Harness) (res *HarnessResult) {
	t0 := time.Now()
	e := newEngine(w, h)
	res = &HarnessResult{Harness: h, engine: e}
	defer func() {
		e.session.Close()
		res.ExecSec = time.Since(t0).Seconds()
		res.Steps = e.steps
		res.Reads = e.M.reads
		if e.feasN > 0 {
			e.note("feasibility checks: %d solver calls, %.1fs", e.feasN, e.feasSec)
		}
		res.Notes = e.notes
		for k := range e.trusted {
			res.Trusted = append(res.Trusted, k)
		}
		sort.Strings(res.Trusted)
		for k := range e.realFns {
			res.RealFns = append(res.RealFns, k)
		}
		sort.Strings(res.RealFns)
		if r := recover(); r != nil {
			if u, ok := r.(unsupportedErr); ok {
				res.Err = u.Error() + " [in " + strings.Join(e.callStack, " > ") + "]"
			} else if err, ok := r.(error); ok && strings.HasPrefix(err.Error(), "unsupported") {
				res.Err = err.Error()
			} else {
				res.Err = fmt.Sprintf("engine panic: %v\n%s", r, debug.Stack())
			}
		}
	}()
	fn := h.Fn
	st := &State{env: map[ssa.Value]Value{}, heap: map[string]*MemNode{}}
	var inputs []InputVar
	for _, p := range fn.Params {
		v := e.symbolic(p.Type(), "in_"+p.Name())
		st.env[p] = v
		lv := e.ly.of(p.Type())
		for i, l := range v.L {
			inputs = append(inputs, InputVar{Name: p.Name() + lv[i].Name, Term: l})
		}
	}
	if len(fn.FreeVars) > 0 {
		panic(unsupported("harness with free variables"))
	}
	if h.Kind == "contract" {
		e.ctrs = append(e.ctrs, &ctrFrame{target: h.Target, mode: modeVerify})
	}
	rets := e.execBody(fn, st)
	// vacuity guard: the end of the harness must be reachable
	reach := 0
	tried := 0
	for _, r := range rets {
		if !e.dead(r.st) {
			if e.paths && !e.feasible(r.st) {
				continue
			}
			if e.paths && tried < 16 && e.W.TmpDir != "" {
				// path mode: look for an end state the solver confirms satisfiable
				tried++
				q := &smt.Query{}
				q.Asserts = append(q.Asserts, e.axioms...)
				q.Asserts = append(q.Asserts, e.coverPC(r.st)...)
				res := smt.SolveText(e.C.Print(q, false), "", 0, smt.DefaultSolvers(5)[:1], e.W.TmpDir, fmt.Sprintf("%s.coverpick%d", h.Name, tried), 5, 1)
				if res.Status != smt.Sat && tried < 16 {
					continue
				}
			}
			reach++
			name := h.Name + "#cover:end"
			if reach > 1 {
				name = fmt.Sprintf("%s@%d", name, reach)
			}
			e.obls = append(e.obls, &Obligation{Name: name, Kind: KindCover, Harness: h.Name, Pos: e.posStr(fn.Pos()),
				Msg: "end of harness reachable (assumptions are not contradictory)", PC: e.coverPC(r.st), Goal: e.C.True(), ctx: e})
			if reach >= 3 {
				break
			}
		}
	}
	if reach == 0 {
		e.obls = append(e.obls, &Obligation{Name: h.Name + "#cover:end", Kind: KindCover, Harness: h.Name, Pos: e.posStr(fn.Pos()),
			Msg: "end of harness reachable", PC: []*smt.Term{e.C.False()}, Goal: e.C.True(), ctx: e})
	}
	for _, o := range e.obls {
		o.Inputs = inputs
	}
	res.Obls = e.obls
	return res
}

// Query builds the satisfiability query whose unsat-ness discharges the obligation.
func (o *Obligation) Query(withValues bool) *smt.Query {
	e := o.ctx
	q := &smt.Query{}
	q.Asserts = append(q.Asserts, e.axioms...)
	q.Asserts = append(q.Asserts, o.PC...)
	if o.Kind != KindCover {
		q.Asserts = append(q.Asserts, e.C.Not(o.Goal))
	}
	if withValues {
		for _, in := range o.Inputs {
			q.Values = append(q.Values, in.Term)
		}
	}
	return q
}

type subQuery struct {
	q   *smt.Query
	red *smt.Query // cone-of-influence reduced query (only an unsat answer counts)
}

// cubes expands the disjunctive literals of the path condition (they come from joins of control-flow paths) into
// at most `limit` conjunctions of literals. Each cube is a list of literals; together the cubes cover the pc.
func (e *Engine) cubes(pc []*smt.Term, limit int) [][]*smt.Term {
	c := e.C
	cur := [][]*smt.Term{{}}
	var expand func(t *smt.Term) [][]*smt.Term // DNF of t as list of cubes, nil if too large
	expand = func(t *smt.Term) [][]*smt.Term {
		switch t.Op {
		case smt.OOr:
			var out [][]*smt.Term
			for _, a := range t.Args {
				sub := expand(a)
				if sub == nil {
					return nil
				}
				out = append(out, sub...)
				if len(out) > limit {
					return nil
				}
			}
			return out
		case smt.OAnd:
			out := [][]*smt.Term{{}}
			for _, a := range t.Args {
				sub := expand(a)
				if sub == nil {
					return nil
				}
				var next [][]*smt.Term
				for _, x := range out {
					for _, y := range sub {
						next = append(next, append(append([]*smt.Term{}, x...), y...))
					}
				}
				if len(next) > limit {
					return nil
				}
				out = next
			}
			return out
		}
		return [][]*smt.Term{{t}}
	}
	for _, p := range pc {
		if p.Op != smt.OOr || c.HasQuantifier(p) {
			continue
		}
		sub := expand(p)
		if sub == nil || len(sub) < 2 || len(cur)*len(sub) > limit {
			continue
		}
		var next [][]*smt.Term
		for _, x := range cur {
			for _, y := range sub {
				// simplify y under x; drop contradictory combinations
				ok := true
				var lits []*smt.Term
				for _, l := range y {
					s := c.AssumeTrue(l, x)
					if s.IsFalse() {
						ok = false
						break
					}
					if !s.IsTrue() {
						lits = append(lits, s)
					}
				}
				if ok {
					next = append(next, append(append([]*smt.Term{}, x...), lits...))
				}
			}
		}
		cur = next
	}
	return cur
}

// symbolsOf collects the variable and function names occurring in t.
func symbolsOf(t *smt.Term, memo map[int]map[string]bool) map[string]bool {
	if m, ok := memo[t.ID]; ok {
		return m
	}
	m := map[string]bool{}
	switch t.Op {
	case smt.OVar:
		m[t.Name] = true
	case smt.OApp:
		// heap arrays connect everything; an application is identified by the function together with its arguments' symbols
		m[t.Name] = true
	}
	for _, a := range t.Args {
		for k := range symbolsOf(a, memo) {
			m[k] = true
		}
	}
	memo[t.ID] = m
	return m
}

// relevant keeps the assertions connected to the goal through shared symbols (cone of influence). Leaving out
// assumptions is sound for proving; when the reduced query is not unsat the full one is used.
func relevant(asserts []*smt.Term, goal *smt.Term) []*smt.Term {
	memo := map[int]map[string]bool{}
	syms := map[string]bool{}
	for k := range symbolsOf(goal, memo) {
		syms[k] = true
	}
	used := make([]bool, len(asserts))
	for changed := true; changed; {
		changed = false
		for i, a := range asserts {
			if used[i] {
				continue
			}
			as := symbolsOf(a, memo)
			hit := false
			for k := range as {
				if syms[k] {
					hit = true
					break
				}
			}
			if hit {
				used[i] = true
				changed = true
				for k := range as {
					syms[k] = true
				}
			}
		}
	}
	var out []*smt.Term
	for i, a := range asserts {
		if used[i] {
			out = append(out, a)
		}
	}
	return out
}

// Prepare builds and prints the query (must be called sequentially per engine). Obligations whose path condition
// carries join disjunctions are split into one sub-query per feasible combination of paths, each simplified under
// the literals of its combination; the obligation is discharged when every sub-query is unsatisfiable.
// RetryPrepare prepares again an obligation whose preparation ran out of its budget (all cores busy), alone and with a
// fresh budget. It reports whether a query exists afterwards.
func (o *Obligation) RetryPrepare(seconds int) (ok bool) {
	if o.full != nil || len(o.subs) > 0 {
		return true
	}
	o.ctx.C.Deadline = time.Now().Add(time.Duration(seconds) * time.Second)
	defer func() {
		if rec := recover(); rec != nil {
			o.Status = "undecided"
			o.Output = fmt.Sprintf("preparation failed again: %v", rec)
			o.subs = nil
			ok = false
		}
	}()
	o.Status = ""
	o.Prepare()
	return o.full != nil || len(o.subs) > 0 || o.Status != ""
}

func (o *Obligation) Prepare() {
	e := o.ctx
	c := e.C
	if o.Kind != KindCover && o.Goal.IsTrue() {
		o.Status = "discharged"
		o.Solver = "simplifier"
		return
	}
	o.skolemize()
	q := o.Query(true)
	o.Size = c.Size(q)
	for _, a := range q.Asserts {
		if a.IsFalse() {
			if o.Kind == KindCover {
				o.Status = "vacuous"
			} else {
				o.Status = "discharged"
				o.Solver = "simplifier"
			}
			return
		}
	}
	o.nvals = len(q.Values)
	if o.Kind != KindCover && o.Size > 300 {
		cubes := e.cubes(o.PC, 64)
		if len(cubes) > 1 {
			for _, cube := range cubes {
				sq := &smt.Query{Values: q.Values}
				dead := false
				for _, a := range q.Asserts {
					s := c.AssumeTrue(a, cube)
					if s.IsFalse() {
						dead = true
						break
					}
					if !s.IsTrue() {
						sq.Asserts = append(sq.Asserts, s)
					}
				}
				if dead {
					continue
				}
				sq.Asserts = append(sq.Asserts, cube...)
				sub := subQuery{q: sq}
				if ng := c.AssumeTrue(c.Not(o.Goal), cube); !ng.IsFalse() {
					var rest []*smt.Term
					for _, a := range sq.Asserts {
						if a != ng {
							rest = append(rest, a)
						}
					}
					red := relevant(rest, ng)
					if len(red) < len(rest) {
						sub.red = &smt.Query{Asserts: append(red, ng)}
					}
				}
				o.subs = append(o.subs, sub)
			}
			o.Cases = len(cubes)
			if len(o.subs) == 0 {
				o.Status = "discharged"
				o.Solver = "simplifier"
			}
			o.full = q
			return
		}
	}
	if o.Kind == KindCover && o.Size > 300 {
		// a satisfiable combination of paths shows the whole path condition satisfiable
		cubes := e.cubes(o.PC, 64)
		if len(cubes) > 1 {
			for _, cube := range cubes {
				sq := &smt.Query{}
				dead := false
				for _, a := range q.Asserts {
					s := c.AssumeTrue(a, cube)
					if s.IsFalse() {
						dead = true
						break
					}
					if !s.IsTrue() {
						sq.Asserts = append(sq.Asserts, s)
					}
				}
				if dead {
					continue
				}
				sq.Asserts = append(sq.Asserts, cube...)
				o.subs = append(o.subs, subQuery{q: sq})
				if len(o.subs) >= 6 {
					break
				}
			}
			o.Cases = len(cubes)
		}
	}
	o.full = q
}

// Discharge runs the solvers on one prepared obligation (safe to call concurrently).
func (o *Obligation) Discharge(solvers []smt.SolverSpec, dir string, timeoutSec, need int) {
	if o.Status != "" {
		return
	}
	if len(o.subs) > 0 && o.Kind == KindCover {
		for i, s := range o.subs {
			r := smt.SolveText(o.ctx.C.Print(s.q, false), o.ctx.C.Print(s.q, true), 0, solvers, dir, fmt.Sprintf("%s.cover%d", o.Name, i), timeoutSec, 1)
			o.Seconds += r.Seconds
			if r.Status == smt.Sat {
				o.Status, o.Solver = "covered", r.Solver+" (one path case)"
				return
			}
		}
		// fall through to the full query
		o.subs = nil
	}
	if len(o.subs) > 0 {
		o.Status = "discharged"
		solversUsed := map[string]bool{}
		results := make([]smt.Result, len(o.subs))
		var wg sync.WaitGroup
		sem := make(chan struct{}, 4)
		for i, s := range o.subs {
			wg.Add(1)
			go func(i int, s subQuery) {
				defer wg.Done()
				sem <- struct{}{}
				defer func() { <-sem }()
				if s.red != nil && need == 1 {
					r := smt.SolveText(o.ctx.C.Print(s.red, false), "", 0, solvers[:1], dir, fmt.Sprintf("%s.case%d.coi", o.Name, i), 5, 1)
					if r.Status == smt.Unsat {
						r.Solver += "/coi"
						results[i] = r
						return
					}
				}
				results[i] = smt.SolveText(o.ctx.C.Print(s.q, false), o.ctx.C.Print(s.q, true), o.nvals, solvers, dir, fmt.Sprintf("%s.case%d", o.Name, i), timeoutSec, need)
			}(i, s)
		}
		wg.Wait()
		for i, s := range o.subs {
			r := results[i]
			if r.Seconds > o.Seconds {
				o.Seconds = r.Seconds
			}
			solversUsed[r.Solver] = true
			switch r.Status {
			case smt.Unsat:
			case smt.Sat:
				o.Status = "failed"
				o.Output = r.Output
				o.FailText = o.ctx.C.Print(s.q, false)
				o.failQ = s.q
				o.Model = map[string]string{}
				for j, in := range o.Inputs {
					if j < len(r.Values) {
						o.Model[in.Name] = r.Values[j]
					}
				}
			default:
				if o.Status == "discharged" {
					o.Status = "undecided"
					o.Output = r.Output
					o.Others = r.Others
				}
			}
			if o.Status == "failed" {
				break
			}
		}
		var names []string
		for n := range solversUsed {
			names = append(names, n)
		}
		sort.Strings(names)
		o.Solver = fmt.Sprintf("%s (%d of %d path cases)", strings.Join(names, "+"), len(o.subs), o.Cases)
		return
	}
	if o.full == nil {
		// the query could not be prepared (budget): undecided, never a pass
		o.Status = "undecided"
		if o.Output == "" {
			o.Output = "no query prepared"
		}
		return
	}
	o.textStd = o.ctx.C.Print(o.full, false)
	r := smt.SolveText(o.textStd, o.ctx.C.Print(o.full, true), o.nvals, solvers, dir, o.Name, timeoutSec, need)
	o.Solver, o.Seconds, o.Output, o.Others = r.Solver, r.Seconds, r.Output, r.Others
	switch {
	case o.Kind == KindCover && r.Status == smt.Sat:
		o.Status = "covered"
	case o.Kind == KindCover && r.Status == smt.Unsat:
		o.Status = "vacuous"
	case o.Kind == KindCover:
		o.Status = "undecided"
	case r.Status == smt.Unsat:
		o.Status = "discharged"
	case r.Status == smt.Sat:
		o.Status = "failed"
		o.failQ = o.full
		o.Model = map[string]string{}
		for i, in := range o.Inputs {
			if i < len(r.Values) {
				o.Model[in.Name] = r.Values[i]
			}
		}
	default:
		o.Status = "undecided"
	}
}

// SMT returns the query text (for replay files).
func (o *Obligation) SMT() string {
	if o.FailText != "" {
		return o.FailText
	}
	if o.textStd == "" && o.full != nil {
		o.textStd = o.ctx.C.Print(o.full, false)
	}
	return o.textStd
}

// Bundle is a group of consecutive automatic safety obligations of one harness decided by a single query:
// "some member fails" must be unsatisfiable. If it is not, the members are decided one by one.
type Bundle struct {
	Members []*Obligation
	q       *smt.Query
}

// BundleSafety groups the not yet decided safety obligations (those without path-case splitting).
func BundleSafety(obls []*Obligation, max int) []*Bundle {
	var out []*Bundle
	var cur *Bundle
	flush := func() {
		if cur != nil && len(cur.Members) > 1 {
			e := cur.Members[0].ctx
			c := e.C
			var alts []*smt.Term
			for _, m := range cur.Members {
				alts = append(alts, c.And(append(append([]*smt.Term{}, m.PC...), c.Not(m.Goal))...))
			}
			q := &smt.Query{}
			q.Asserts = append(q.Asserts, e.axioms...)
			q.Asserts = append(q.Asserts, c.Or(alts...))
			cur.q = q
			out = append(out, cur)
		}
		cur = nil
	}
	for _, o := range obls {
		if o.Kind != KindSafety || o.Status != "" || len(o.subs) > 0 || o.full == nil {
			continue
		}
		if cur != nil && (cur.Members[0].ctx != o.ctx || len(cur.Members) >= max) {
			flush()
		}
		if cur == nil {
			cur = &Bundle{}
		}
		cur.Members = append(cur.Members, o)
	}
	flush()
	return out
}

// Discharge decides a bundle; on success every member is discharged.
func (b *Bundle) Discharge(solvers []smt.SolverSpec, dir string, timeoutSec int) {
	e := b.Members[0].ctx
	r := smt.SolveText(e.C.Print(b.q, false), "", 0, solvers[:1], dir, b.Members[0].Name+".bundle", timeoutSec, 1)
	if r.Status == smt.Unsat {
		for _, m := range b.Members {
			m.Status = "discharged"
			m.Solver = r.Solver + fmt.Sprintf(" (bundle of %d)", len(b.Members))
			m.Seconds = r.Seconds / float64(len(b.Members))
		}
	}
}

func (o *Obligation) Engine() *Engine { return o.ctx }

var _ = os.Stderr
var _ types.Type

// Discharge2 retries an undecided obligation accepting a single definitive answer.
func (o *Obligation) Discharge2(solvers []smt.SolverSpec, dir string, timeoutSec int) {
	o.Status = ""
	o.Discharge(solvers, dir, timeoutSec, 1)
	if o.Status == "discharged" {
		o.Solver += " (single solver)"
	}
}

// coverPC is the path condition without the literals that were proved before being assumed.
func (e *Engine) coverPC(st *State) []*smt.Term {
	drop := map[int]bool{}
	for _, d := range st.derived {
		drop[d.ID] = true
		if d.Op == smt.OAnd {
			for _, a := range d.Args {
				drop[a.ID] = true
			}
		}
	}
	var out []*smt.Term
	for _, p := range st.pc {
		if !drop[p.ID] {
			out = append(out, p)
		}
	}
	return out
}

// oblPC is the path condition used for an obligation: literals that were proved before being assumed are implied
// by the rest, so the quantified and the large ones among them are left out (they only slow the solvers down).
func (e *Engine) oblPC(st *State) []*smt.Term {
	drop := map[int]bool{}
	for _, d := range st.derived {
		if e.C.HasQuantifier(d) {
			drop[d.ID] = true
		}
	}
	if len(drop) == 0 {
		return append([]*smt.Term{}, st.pc...)
	}
	var out []*smt.Term
	for _, p := range st.pc {
		if !drop[p.ID] {
			out = append(out, p)
		}
	}
	return out
}

// skolemize replaces universally quantified conjuncts of the goal by instances at fresh constants and adds, for
// every universally quantified assumption with the same bound-variable sorts, its instance at those constants.
func (o *Obligation) skolemize() {
	if o.Kind == KindCover || o.skolemized {
		return
	}
	o.skolemized = true
	c := o.ctx.C
	var conj []*smt.Term
	if o.Goal.Op == smt.OAnd {
		conj = o.Goal.Args
	} else {
		conj = []*smt.Term{o.Goal}
	}
	var newGoal []*smt.Term
	var sks [][]*smt.Term
	for _, g := range conj {
		if g.Op != smt.OForall {
			newGoal = append(newGoal, g)
			continue
		}
		bound := g.Args[1:]
		m := map[int]*smt.Term{}
		var fresh []*smt.Term
		for _, b := range bound {
			f := c.FreshVar("sk", b.Sort)
			m[b.ID] = f
			fresh = append(fresh, f)
		}
		newGoal = append(newGoal, c.Subst(g.Args[0], m))
		sks = append(sks, fresh)
	}
	// candidate instantiation terms: the unknown values (nondet picks of models) the goal talks about
	cands := instCandidates(c, o.Goal)
	for _, t := range cands {
		sks = append(sks, []*smt.Term{t})
	}
	if len(sks) == 0 {
		return
	}
	o.Goal = c.And(newGoal...)
	// instances of one universally quantified formula at the candidate tuples (nil if none fits)
	instances := func(p *smt.Term) []*smt.Term {
		bound := p.Args[1:]
		var out []*smt.Term
		for _, fresh := range sks {
			if len(fresh) != len(bound) {
				continue
			}
			ok := true
			m := map[int]*smt.Term{}
			for i, b := range bound {
				if b.Sort != fresh[i].Sort {
					ok = false
					break
				}
				m[b.ID] = fresh[i]
			}
			if ok {
				out = append(out, c.Subst(p.Args[0], m))
			}
		}
		return out
	}
	// weaken replaces every universally quantified subformula in a POSITIVE position (under and/or/the branches of a
	// Boolean ite) by the conjunction of its instances: the result is implied by the original, so it may be assumed.
	var weaken func(p *smt.Term) (*smt.Term, bool)
	weaken = func(p *smt.Term) (*smt.Term, bool) {
		if !c.HasQuantifier(p) {
			return p, false
		}
		switch p.Op {
		case smt.OForall:
			ins := instances(p)
			if len(ins) == 0 {
				return c.True(), true
			}
			return c.And(ins...), true
		case smt.OAnd, smt.OOr:
			args := make([]*smt.Term, len(p.Args))
			for i, a := range p.Args {
				args[i], _ = weaken(a)
			}
			if p.Op == smt.OAnd {
				return c.And(args...), true
			}
			return c.Or(args...), true
		case smt.OIte:
			if c.HasQuantifier(p.Args[0]) {
				return c.True(), true
			}
			a, _ := weaken(p.Args[1])
			b, _ := weaken(p.Args[2])
			return c.Ite(p.Args[0], a, b), true
		}
		return c.True(), true // negative or unknown position: drop
	}
	for _, p := range append([]*smt.Term{}, o.PC...) {
		if !c.HasQuantifier(p) {
			continue
		}
		if p.Op == smt.OForall {
			o.PC = append(o.PC, instances(p)...)
			continue
		}
		if w, changed := weaken(p); changed && w.Op != smt.OTrue {
			o.PC = append(o.PC, w)
		}
	}
}

// instCandidates lists 64-bit views of the nondet variables occurring in t (at most 4).
func instCandidates(c *smt.Ctx, t *smt.Term) []*smt.Term {
	seen := map[int]bool{}
	var out []*smt.Term
	var walk func(t *smt.Term)
	walk = func(t *smt.Term) {
		if seen[t.ID] || len(out) >= 4 {
			return
		}
		seen[t.ID] = true
		if t.Op == smt.OVar && strings.HasPrefix(t.Name, "nondet") && t.Sort.Kind == smt.KBV {
			if t.Sort.Width == 64 {
				out = append(out, t)
			} else if t.Sort.Width < 64 {
				out = append(out, c.ZeroExt(t, 64))
			}
			return
		}
		for _, a := range t.Args {
			walk(a)
		}
	}
	walk(t)
	return out
}

// PrepareAll prepares every obligation under a fresh time budget; an obligation whose preparation runs out of budget
// stays undecided (never a pass).
func (r *HarnessResult) PrepareAll(seconds int) {
	if r.engine == nil {
		return
	}
	deadline := time.Now().Add(time.Duration(seconds) * time.Second)
	for _, o := range r.Obls {
		r.engine.C.Deadline = deadline
		func() {
			defer func() {
				if rec := recover(); rec != nil {
					o.Status = "undecided"
					o.Output = fmt.Sprintf("preparation failed: %v", rec)
					o.subs = nil
				}
			}()
			o.Prepare()
		}()
	}
}
