package engine

import (
	"fmt"
	"go/token"
	"go/types"
	"os"
	"runtime/debug"
	"sort"
	"strings"
	"time"

	"golang.org/x/tools/go/ssa"

	"govc/smt"
)

type OblKind string

const (
	KindAssert  OblKind = "assert"
	KindEnsures OblKind = "ensures"
	KindPre     OblKind = "call-requires"
	KindSafety  OblKind = "safety"
	KindPanic   OblKind = "no-panic"
	KindUnwind  OblKind = "unwind"
	KindInv     OblKind = "invariant"
	KindStep    OblKind = "step"
	KindCover   OblKind = "cover" // must be satisfiable (vacuity guard)
)

// Obligation is one verification condition: under PC (and the axioms), Goal must hold.
type Obligation struct {
	Name    string
	Kind    OblKind
	Harness string
	Pos     string
	Msg     string
	PC      []*smt.Term
	Goal    *smt.Term
	Inputs  []InputVar

	// results
	Status  string // discharged | failed | undecided | trivially-true | covered | vacuous
	Solver  string
	Seconds float64
	Size    int
	Output  string
	Model   map[string]string
	Others  map[string]string
	ctx     *Engine
	textStd string
	textCVC string
	nvals   int
}

type InputVar struct {
	Name string
	Term *smt.Term
}

func (e *Engine) note(format string, args ...interface{}) {
	e.notes = append(e.notes, fmt.Sprintf(format, args...))
}

func (e *Engine) oblige(st *State, label string, kind OblKind, goal *smt.Term, pos token.Pos, msg string) {
	if e.dead(st) {
		return
	}
	name := e.harness.Name + "#" + label
	// disambiguate repeated labels (same label reached at several sites/paths)
	n := 0
	for _, o := range e.obls {
		if o.Name == name || strings.HasPrefix(o.Name, name+"@") {
			n++
		}
	}
	if n > 0 {
		name = fmt.Sprintf("%s@%d", name, n+1)
	}
	o := &Obligation{Name: name, Kind: kind, Harness: e.harness.Name, Pos: e.posStr(pos), Msg: msg,
		PC: append([]*smt.Term{}, st.pc...), Goal: goal, ctx: e}
	e.obls = append(e.obls, o)
	// after asserting, assume (first failure is what is reported)
	if kind != KindCover {
		e.assume(st, goal)
	}
}

// safety obligations are generated automatically; trivially true ones are dropped.
func (e *Engine) safety(st *State, cls string, goal *smt.Term, pos token.Pos, msg string) {
	if goal.IsTrue() || e.dead(st) {
		return
	}
	for _, p := range st.pc {
		if p == goal {
			return
		}
	}
	e.safetySeq++
	e.oblige(st, fmt.Sprintf("safety:%s.%d", cls, e.safetySeq), KindSafety, goal, pos, msg+" in "+e.where())
}

func (e *Engine) where() string {
	if len(e.callStack) == 0 {
		return e.harness.Name
	}
	return e.callStack[len(e.callStack)-1]
}

func (e *Engine) panicReached(st *State, msg string, pos token.Pos) {
	if e.dead(st) {
		return
	}
	for i := len(e.callStack) - 1; i >= 0; i-- {
		if why, ok := e.W.MayPanic[e.callStack[i]]; ok {
			e.trust("declared maypanic: " + e.callStack[i] + " (" + why + ")")
			return // path is simply not continued
		}
	}
	e.safetySeq++
	e.oblige(st, fmt.Sprintf("safety:panic.%d", e.safetySeq), KindPanic, e.C.False(), pos, msg+" in "+e.where())
}

// ---------------------------------------------------------------- running a harness

type HarnessResult struct {
	Harness *Harness
	Obls    []*Obligation
	Err     string // engine could not process the harness (outside subset) — never a pass
	Notes   []string
	Trusted []string
	Steps   int
	Reads   int
	ExecSec float64
	engine  *Engine
}

// Generate symbolically executes the harness and returns its obligations (not yet discharged).
func (w *World) Generate(h *Harness) (res *HarnessResult) {
	t0 := time.Now()
	e := newEngine(w, h)
	res = &HarnessResult{Harness: h, engine: e}
	defer func() {
		res.ExecSec = time.Since(t0).Seconds()
		res.Steps = e.steps
		res.Reads = e.M.reads
		res.Notes = e.notes
		for k := range e.trusted {
			res.Trusted = append(res.Trusted, k)
		}
		sort.Strings(res.Trusted)
		if r := recover(); r != nil {
			if u, ok := r.(unsupportedErr); ok {
				res.Err = u.Error() + " [in " + strings.Join(e.callStack, " > ") + "]"
			} else if err, ok := r.(error); ok && strings.HasPrefix(err.Error(), "unsupported") {
				res.Err = err.Error()
			} else {
				res.Err = fmt.Sprintf("engine panic: %v\n%s", r, debug.Stack())
			}
		}
	}()
	fn := h.Fn
	st := &State{env: map[ssa.Value]Value{}, heap: map[string]*MemNode{}}
	var inputs []InputVar
	for _, p := range fn.Params {
		v := e.symbolic(p.Type(), "in_"+p.Name())
		st.env[p] = v
		lv := e.ly.of(p.Type())
		for i, l := range v.L {
			inputs = append(inputs, InputVar{Name: p.Name() + lv[i].Name, Term: l})
		}
	}
	if len(fn.FreeVars) > 0 {
		panic(unsupported("harness with free variables"))
	}
	if h.Kind == "contract" {
		e.ctrs = append(e.ctrs, &ctrFrame{target: h.Target, mode: modeVerify})
	}
	rets := e.execBody(fn, st)
	// vacuity guard: the end of the harness must be reachable
	reach := 0
	for _, r := range rets {
		if !e.dead(r.st) {
			reach++
			e.obls = append(e.obls, &Obligation{Name: h.Name + "#cover:end", Kind: KindCover, Harness: h.Name, Pos: e.posStr(fn.Pos()),
				Msg: "end of harness reachable (assumptions are not contradictory)", PC: append([]*smt.Term{}, r.st.pc...), Goal: e.C.True(), ctx: e})
			break
		}
	}
	if reach == 0 {
		e.obls = append(e.obls, &Obligation{Name: h.Name + "#cover:end", Kind: KindCover, Harness: h.Name, Pos: e.posStr(fn.Pos()),
			Msg: "end of harness reachable", PC: []*smt.Term{e.C.False()}, Goal: e.C.True(), ctx: e})
	}
	for _, o := range e.obls {
		o.Inputs = inputs
	}
	res.Obls = e.obls
	return res
}

// Query builds the satisfiability query whose unsat-ness discharges the obligation.
func (o *Obligation) Query(withValues bool) *smt.Query {
	e := o.ctx
	q := &smt.Query{}
	q.Asserts = append(q.Asserts, e.axioms...)
	q.Asserts = append(q.Asserts, o.PC...)
	if o.Kind != KindCover {
		q.Asserts = append(q.Asserts, e.C.Not(o.Goal))
	}
	if withValues {
		for _, in := range o.Inputs {
			q.Values = append(q.Values, in.Term)
		}
	}
	return q
}

// Prepare builds and prints the query (must be called sequentially per engine).
func (o *Obligation) Prepare() {
	e := o.ctx
	if o.Kind != KindCover && o.Goal.IsTrue() {
		o.Status = "trivially-true"
		return
	}
	q := o.Query(true)
	o.Size = e.C.Size(q)
	for _, a := range q.Asserts {
		if a.IsFalse() {
			if o.Kind == KindCover {
				o.Status = "vacuous"
			} else {
				o.Status = "discharged"
				o.Solver = "syntactic"
			}
			return
		}
	}
	o.textStd = e.C.Print(q, false)
	o.textCVC = e.C.Print(q, true)
	o.nvals = len(q.Values)
}

// Discharge runs the solvers on one prepared obligation (safe to call concurrently).
func (o *Obligation) Discharge(solvers []smt.SolverSpec, dir string, timeoutSec, need int) {
	if o.Status != "" {
		return
	}
	r := smt.SolveText(o.textStd, o.textCVC, o.nvals, solvers, dir, o.Name, timeoutSec, need)
	o.Solver, o.Seconds, o.Output, o.Others = r.Solver, r.Seconds, r.Output, r.Others
	switch {
	case o.Kind == KindCover && r.Status == smt.Sat:
		o.Status = "covered"
	case o.Kind == KindCover && r.Status == smt.Unsat:
		o.Status = "vacuous"
	case o.Kind == KindCover:
		o.Status = "undecided"
	case r.Status == smt.Unsat:
		o.Status = "discharged"
	case r.Status == smt.Sat:
		o.Status = "failed"
		o.Model = map[string]string{}
		for i, in := range o.Inputs {
			if i < len(r.Values) {
				o.Model[in.Name] = r.Values[i]
			}
		}
	default:
		o.Status = "undecided"
	}
}

// SMT returns the query text (for replay files).
func (o *Obligation) SMT() string { return o.textStd }

func (o *Obligation) Engine() *Engine { return o.ctx }

var _ = os.Stderr
var _ types.Type

// Discharge2 retries an undecided obligation accepting a single definitive answer.
func (o *Obligation) Discharge2(solvers []smt.SolverSpec, dir string, timeoutSec int) {
	o.Status = ""
	o.Discharge(solvers, dir, timeoutSec, 1)
	if o.Status == "discharged" {
		o.Solver += " (single solver)"
	}
}
