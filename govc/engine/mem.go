package engine

import (
	"fmt"
	"sort"
	"time"

	"govc/smt"
)

type memKind int

const (
	mInit memKind = iota
	mStore
	mCopy
	mMerge
	mZero   // freshly allocated object/backing store: every cell of base a0 holds the zero value
	mHavoc  // every cell of base a0 holds an unknown value (fresh UF)
	mFill   // cells [off, off+n) of base a0 hold val
	mFrame  // cells of base a0 still hold what the list `src` holds for them (frame around a wholesale havoc)
	mHavocR // cells [off, off+n) of base a0 hold unknown values (fresh UF)
	// mAppend: result slice (a0=resBase, a1=resOff) of append(old, src...): when `fits` the n new cells were
	// written in place behind old (oldBase,oldOff,oldLen); otherwise resBase is fresh storage holding old's
	// cells followed by the new ones. Reads through the result slice are the same in both cases.
	mAppend
)

// MemNode is one layer of a persistent update list for one heap array (one leaf of one type).
type MemNode struct {
	id                int
	kind              memKind
	prev              *MemNode
	sort              smt.Sort
	uf                *smt.Func   // mInit, mHavoc
	a0                *smt.Term   // mStore, mZero, mHavoc, mCopy(dst), mFill
	a1                *smt.Term   // mStore index; mCopy dst offset; mFill offset
	n                 *smt.Term   // mCopy/mFill length
	val               *smt.Term   // mStore, mZero, mFill
	src               *MemNode    // mCopy source list
	s0                *smt.Term   // mCopy source base
	s1                *smt.Term   // mCopy source offset
	la                []*smt.Term // mMerge: literals that hold on branch a
	lb                []*smt.Term
	a, b              *MemNode
	constPtee         int       // for lkPtrMeta init: reads return this constant place id
	oBase, oOff, oLen *smt.Term // mAppend: the old slice
	fits              *smt.Term // mAppend
	zero              *smt.Term // mAppend: value of never-written cells of fresh storage
}

type tri int

const (
	triUnknown tri = iota
	triYes
	triNo
)

type memCtx struct {
	c        *smt.Ctx
	nextID   int
	memo     map[string]*smt.Term
	reads    int
	baseLike map[int]bool // symbolic terms known to be object identities
	deadline time.Time
}

const freshBaseStart = uint64(1) << 62

// isFreshBase reports whether t is the constant identity of an allocation made during execution.
func isFreshBase(t *smt.Term) (int, bool) {
	if t.IsConst() && t.Val >= freshBaseStart {
		return int(t.Val - freshBaseStart), true
	}
	return 0, false
}

// distinctIDs is the syntactic disequality used by the term constructors: allocation identities made
// during execution differ from each other (different constants) and from every older symbolic identity.
func (m *memCtx) distinctIDs(x, y *smt.Term) bool {
	if x.Sort.Width != 64 {
		return false
	}
	isGlobal := func(t *smt.Term) bool { return t.IsConst() && t.Val >= globalStart && t.Val < rodataStart }
	isSym := func(t *smt.Term) bool { return t.Op == smt.OVar || t.Op == smt.OApp }
	if isGlobal(x) && isSym(y) && m.baseLike[y.ID] || isGlobal(y) && isSym(x) && m.baseLike[x.ID] {
		return true
	}
	if k, ok := isFreshBase(x); ok {
		if s, ok := m.headStamp(y); ok && s < k {
			return true
		}
	}
	if k, ok := isFreshBase(y); ok {
		if s, ok := m.headStamp(x); ok && s < k {
			return true
		}
	}
	return false
}

func isRodata(t *smt.Term) bool {
	return t.IsConst() && t.Val >= rodataStart && t.Val < freshBaseStart
}

// headStamp returns the creation stamp of the head symbol of t (var or UF application).
func (m *memCtx) headStamp(t *smt.Term) (int, bool) {
	switch t.Op {
	case smt.OVar:
		return t.Stamp, true
	case smt.OApp:
		return m.c.Funcs[t.Name].Stamp, true
	}
	return 0, false
}

func (m *memCtx) eqStatus(x, y *smt.Term) tri {
	if x == y {
		return triYes
	}
	if d, ok := m.c.DiffConst(x, y); ok {
		if d == 0 {
			return triYes
		}
		return triNo
	}
	if eq := m.c.Eq(x, y); eq.IsFalse() {
		return triNo
	} else if eq.IsTrue() {
		return triYes
	}
	// read-only literal storage is never the target of a write
	if isRodata(x) != isRodata(y) {
		return triNo
	}
	// fresh allocation vs. older symbolic identity
	if k, ok := isFreshBase(x); ok {
		if s, ok := m.headStamp(y); ok && s < k {
			return triNo
		}
	}
	if k, ok := isFreshBase(y); ok {
		if s, ok := m.headStamp(x); ok && s < k {
			return triNo
		}
	}
	return triUnknown
}

func (m *memCtx) node(n MemNode) *MemNode {
	m.nextID++
	n.id = m.nextID
	return &n
}

func (m *memCtx) store(prev *MemNode, a0, a1, val *smt.Term) *MemNode {
	if val.Sort != prev.sort {
		panic(fmt.Sprintf("mem: store sort mismatch %v into %v", val.Sort, prev.sort))
	}
	// overwrite of the immediately preceding store at the same address
	if prev.kind == mStore && prev.a0 == a0 && prev.a1 == a1 {
		prev = prev.prev
	}
	return m.node(MemNode{kind: mStore, prev: prev, sort: prev.sort, a0: a0, a1: a1, val: val})
}

func (m *memCtx) read(n *MemNode, a0, a1 *smt.Term) *smt.Term {
	return m.readC(n, a0, a1, nil)
}

func ctxKey(ctx []*smt.Term) string {
	if len(ctx) == 0 {
		return ""
	}
	ids := make([]int, len(ctx))
	for i, t := range ctx {
		ids[i] = t.ID
	}
	sort.Ints(ids)
	return fmt.Sprint(ids)
}

// addCtx extends a context with literals (dropping duplicates).
func addCtx(ctx []*smt.Term, lits ...*smt.Term) []*smt.Term {
	out := append([]*smt.Term{}, ctx...)
	for _, l := range lits {
		dup := false
		for _, x := range out {
			if x == l {
				dup = true
				break
			}
		}
		if !dup && !l.IsTrue() {
			out = append(out, l)
		}
	}
	return out
}

// readC reads under a context of literals known to hold (used to prune merge branches).
func (m *memCtx) readC(n *MemNode, a0, a1 *smt.Term, ctx []*smt.Term) *smt.Term {
	c := m.c
	if len(ctx) > 0 {
		a0, a1 = c.AssumeTrue(a0, ctx), c.AssumeTrue(a1, ctx)
	}
	key := fmt.Sprintf("%d|%d|%d|%s", n.id, a0.ID, a1.ID, ctxKey(ctx))
	if t, ok := m.memo[key]; ok {
		return t
	}
	m.reads++
	if m.reads%4096 == 0 && time.Now().After(m.deadline) {
		panic(unsupported("generation time budget exceeded (memory reads)"))
	}
	var r *smt.Term
	switch n.kind {
	case mInit:
		if n.constPtee != 0 {
			r = c.Const(uint64(n.constPtee), 64)
		} else {
			r = c.App(n.uf, a0, a1)
		}
	case mStore:
		sb, si := m.eqStatus(a0, n.a0), m.eqStatus(a1, n.a1)
		switch {
		case sb == triNo || si == triNo:
			r = m.readC(n.prev, a0, a1, ctx)
		case sb == triYes && si == triYes:
			r = n.val
		default:
			r = c.Ite(c.And(c.Eq(a0, n.a0), c.Eq(a1, n.a1)), n.val, m.readC(n.prev, a0, a1, ctx))
		}
	case mZero:
		switch m.eqStatus(a0, n.a0) {
		case triNo:
			r = m.readC(n.prev, a0, a1, ctx)
		case triYes:
			r = n.val
		default:
			r = c.Ite(c.Eq(a0, n.a0), n.val, m.readC(n.prev, a0, a1, ctx))
		}
	case mHavoc:
		switch m.eqStatus(a0, n.a0) {
		case triNo:
			r = m.readC(n.prev, a0, a1, ctx)
		case triYes:
			r = c.App(n.uf, a0, a1)
		default:
			r = c.Ite(c.Eq(a0, n.a0), c.App(n.uf, a0, a1), m.readC(n.prev, a0, a1, ctx))
		}
	case mFill, mCopy, mHavocR:
		sb := m.eqStatus(a0, n.a0)
		in := triUnknown
		if d, ok := c.DiffConst(a1, n.a1); ok {
			if d < 0 {
				in = triNo
			} else if e, ok := c.DiffConst(n.n, c.Const(uint64(d), 64)); ok {
				// n - d constant: in range iff n - d > 0
				if e > 0 {
					in = triYes
				} else {
					in = triNo
				}
			}
		}
		if in == triUnknown {
			if e, ok := c.DiffConst(a1, c.Add(n.a1, n.n)); ok && e >= 0 {
				in = triNo
			}
		}
		inner := func() *smt.Term {
			if n.kind == mFill {
				return n.val
			}
			if n.kind == mHavocR {
				return c.App(n.uf, a0, a1)
			}
			return m.readC(n.src, n.s0, c.Add(n.s1, c.Sub(a1, n.a1)), ctx)
		}
		switch {
		case sb == triNo || in == triNo:
			r = m.readC(n.prev, a0, a1, ctx)
		case sb == triYes && in == triYes:
			r = inner()
		default:
			cond := c.And(c.Eq(a0, n.a0), c.UleNW(n.a1, a1), c.UltNW(a1, c.Add(n.a1, n.n)))
			r = c.Ite(cond, inner(), m.readC(n.prev, a0, a1, ctx))
		}
	case mFrame:
		switch m.eqStatus(a0, n.a0) {
		case triNo:
			r = m.readC(n.prev, a0, a1, ctx)
		case triYes:
			r = m.readC(n.src, a0, a1, ctx)
		default:
			r = c.Ite(c.Eq(a0, n.a0), m.readC(n.src, a0, a1, ctx), m.readC(n.prev, a0, a1, ctx))
		}
	case mAppend:
		r = m.readAppend(n, a0, a1, ctx)
	case mMerge:
		condA := c.AssumeTrue(c.And(n.la...), ctx)
		switch {
		case condA.IsTrue():
			r = m.readC(n.a, a0, a1, addCtx(ctx, n.la...))
		case condA.IsFalse():
			r = m.readC(n.b, a0, a1, addCtx(ctx, n.lb...))
		default:
			if c.AssumeTrue(c.And(n.lb...), ctx).IsFalse() {
				r = m.readC(n.a, a0, a1, addCtx(ctx, n.la...))
				break
			}
			ra := m.readC(n.a, a0, a1, addCtx(ctx, n.la...))
			rb := m.readC(n.b, a0, a1, addCtx(ctx, n.lb...))
			r = c.Ite(condA, ra, rb)
		}
	}
	m.memo[key] = r
	return r
}

// readAppend implements the read rule of an mAppend layer.
func (m *memCtx) readAppend(n *MemNode, a0, a1 *smt.Term, ctx []*smt.Term) *smt.Term {
	c := m.c
	// value seen through the result slice at relative position j = a1 - resOff
	var viaResult func(lits []*smt.Term, depth int) *smt.Term
	viaResult = func(lits []*smt.Term, depth int) *smt.Term {
		all := addCtx(ctx, lits...)
		sm := func(t *smt.Term) *smt.Term { return c.AssumeTrue(t, all) }
		a1, rOff, oBase, oOff, oLen, nn, s0, s1, fits := sm(a1), sm(n.a1), sm(n.oBase), sm(n.oOff), sm(n.oLen), sm(n.n), sm(n.s0), sm(n.s1), sm(n.fits)
		j := c.Sub(a1, rOff)
		old := func() *smt.Term { return m.readC(n.prev, oBase, c.Add(oOff, j), all) }
		elem := func() *smt.Term { return m.readC(n.src, s0, c.Add(s1, c.Sub(j, oLen)), all) }
		beyond := func() *smt.Term { return c.Ite(fits, old(), n.zero) }
		if d, ok := c.DiffConst(j, oLen); ok {
			if d < 0 {
				return old()
			}
			if e, ok := c.DiffConst(nn, c.Const(uint64(d), 64)); ok {
				if e > 0 {
					return elem()
				}
				return beyond()
			}
			return c.Ite(c.Ult(c.Const(uint64(d), 64), nn), elem(), beyond())
		}
		if oLen.Op == smt.OIte && depth > 0 {
			cnd := oLen.Args[0]
			t := viaResult(append(append([]*smt.Term{}, lits...), cnd), depth-1)
			f := viaResult(append(append([]*smt.Term{}, lits...), c.Not(cnd)), depth-1)
			return c.Ite(cnd, t, f)
		}
		return c.Ite(c.UltNW(j, oLen), old(), c.Ite(c.UltNW(j, c.Add(oLen, nn)), elem(), beyond()))
	}
	// value seen through any other handle: only the in-place case can have touched it
	viaAlias := func() *smt.Term {
		below := m.readC(n.prev, a0, a1, ctx)
		if n.fits.IsFalse() {
			return below
		}
		switch m.eqStatus(a0, n.oBase) {
		case triNo:
			return below
		}
		start := c.Add(n.oOff, n.oLen)
		k := c.Sub(a1, start)
		in := triUnknown
		if d, ok := c.DiffConst(a1, start); ok {
			if d < 0 {
				in = triNo
			} else if e, ok := c.DiffConst(n.n, c.Const(uint64(d), 64)); ok {
				if e > 0 {
					in = triYes
				} else {
					in = triNo
				}
			}
		}
		if in == triNo {
			return below
		}
		cond := c.And(n.fits, c.Eq(a0, n.oBase))
		if in != triYes {
			cond = c.And(cond, c.UleNW(start, a1), c.UltNW(k, n.n))
		}
		return c.Ite(cond, m.readC(n.src, n.s0, c.Add(n.s1, k), ctx), below)
	}
	switch m.eqStatus(a0, n.a0) {
	case triYes:
		return viaResult(nil, 8)
	case triNo:
		return viaAlias()
	}
	return c.Ite(c.Eq(a0, n.a0), viaResult(nil, 8), viaAlias())
}

func shorts(c *smt.Ctx, ts []*smt.Term) []string {
	var out []string
	for _, t := range ts {
		out = append(out, c.Short(t))
	}
	return out
}
