package engine

import (
	"fmt"
	"go/ast"
	"go/token"
	"go/types"
	"sort"
	"strings"

	"golang.org/x/tools/go/ssa"

	"govc/smt"
)

type loopPhase int

const (
	phInit loopPhase = iota
	phDry
	phHead
	phPreserve
)

type loopFrame struct {
	fr      *frame
	li      *loopInfo
	spec    *LoopSpec
	phase   loopPhase
	deliver func(from, to *ssa.BasicBlock, st *State)
	headEnv map[ssa.Value]Value
	headDef []deferred
	back    *State
	prefix  string
	outs    []*State // dry run: all states leaving the body
}

type havocSet struct {
	whole map[string]bool
	bases map[string]map[int]*smt.Term // key -> base term id -> term
}

func (h *havocSet) size() int {
	n := len(h.whole)
	for _, m := range h.bases {
		n += len(m)
	}
	return n
}

// runLoopInvariant cuts the loop at its header using the loop contract function.
func (e *Engine) runLoopInvariant(fr *frame, li *loopInfo, spec *LoopSpec, arrivals []edgeState, deliver func(from, to *ssa.BasicBlock, st *State)) {
	saveP := e.paths
	e.paths = false // loops under contract are processed with joins; what leaves the loop continues in the harness's mode
	defer func() { e.paths = saveP }()
	initSt := e.enterBlock(li.header, arrivals)
	if initSt == nil {
		return
	}
	e.usedLoops[spec.Key] = true
	L := spec.Contract
	prefix := fmt.Sprintf("loop%d", li.ordinal)
	pos := li.header.Instrs[0].Pos()
	run := func(phase loopPhase, from *State) *loopFrame {
		lf := &loopFrame{fr: fr, li: li, spec: spec, phase: phase, deliver: deliver, headEnv: from.env, headDef: from.defers, prefix: prefix}
		e.loopCtx = append(e.loopCtx, lf)
		defer func() { e.loopCtx = e.loopCtx[:len(e.loopCtx)-1] }()
		args := e.bindLoopParams(L, fr.fn, li, from)
		ls := &State{pc: from.pc, env: map[ssa.Value]Value{}, heap: copyHeap(from.heap)}
		e.inline(ls, L, args, nil, pos)
		return lf
	}
	// 1. invariant holds on entry
	run(phInit, initSt)
	// 2. what does an arbitrary iteration write?  (fixpoint over dry runs)
	entryStamp := e.C.CurStamp()
	hs := &havocSet{whole: map[string]bool{}, bases: map[string]map[int]*smt.Term{}}
	for iter := 0; iter < 6; iter++ {
		head := e.havocState(initSt, li, hs)
		nObl, nRet, nAx := len(e.obls), len(fr.rets), len(e.axioms)
		_ = nAx
		lf := run(phDry, head)
		e.obls = e.obls[:nObl]
		fr.rets = fr.rets[:nRet]
		before := hs.size()
		for _, o := range lf.outs {
			e.collectWrites(head, o, entryStamp, hs)
		}
		if hs.size() == before {
			break
		}
		if iter == 5 {
			panic(unsupported("loop write-set did not stabilise: " + spec.Key))
		}
	}
	// 3. arbitrary iteration: assume invariant, run body, check steps
	head := e.havocState(initSt, li, hs)
	lf := run(phHead, head)
	// 4. invariant preserved
	if lf.back != nil {
		run(phPreserve, lf.back)
	}
}

// havocState forgets the loop-carried registers and the memory the loop may write.
func (e *Engine) havocState(initSt *State, li *loopInfo, hs *havocSet) *State {
	st := initSt.clone()
	for _, ins := range li.header.Instrs {
		p, ok := ins.(*ssa.Phi)
		if !ok {
			break
		}
		st.env[p] = e.symbolic(p.Type(), "loop_"+p.Comment)
	}
	keys := make([]string, 0, len(hs.whole))
	for k := range hs.whole {
		keys = append(keys, k)
	}
	sort.Strings(keys)
	for _, k := range keys {
		m := st.heap[k]
		if m == nil {
			m = e.initMem[k]
		}
		if im := e.initMem[k]; im != nil && im.constPtee != 0 {
			continue // pointer layout ids are type-determined
		}
		st.heap[k] = e.M.node(MemNode{kind: mInit, sort: m.sort, uf: e.C.FreshFunc("Hl_"+k, []smt.Sort{bv64, bv64}, m.sort)})
		// package-level variables are only written through their own identity: those the loop does not write keep their value
		gids := make([]uint64, 0, len(e.globals))
		for _, id := range e.globals {
			gids = append(gids, id)
		}
		sort.Slice(gids, func(i, j int) bool { return gids[i] < gids[j] })
		for _, id := range gids {
			g := e.k64(id)
			if _, written := hs.bases[k][g.ID]; written {
				continue
			}
			st.heap[k] = e.M.node(MemNode{kind: mFrame, prev: st.heap[k], sort: m.sort, a0: g, src: m})
		}
	}
	bkeys := make([]string, 0, len(hs.bases))
	for k := range hs.bases {
		bkeys = append(bkeys, k)
	}
	sort.Strings(bkeys)
	for _, k := range bkeys {
		if hs.whole[k] {
			continue
		}
		if im := e.initMem[k]; im != nil && im.constPtee != 0 {
			continue
		}
		ids := make([]int, 0)
		for id := range hs.bases[k] {
			ids = append(ids, id)
		}
		sort.Ints(ids)
		for _, id := range ids {
			m := st.heap[k]
			if m == nil {
				m = e.initMem[k]
			}
			st.heap[k] = e.M.node(MemNode{kind: mHavoc, prev: m, sort: m.sort, a0: hs.bases[k][id], uf: e.C.FreshFunc("Hb_"+k, []smt.Sort{bv64, bv64}, m.sort)})
		}
	}
	return st
}

// collectWrites records which (array, base) pairs differ between the head state and a state leaving the body.
func (e *Engine) collectWrites(head, out *State, entryStamp int, hs *havocSet) {
	for k, m := range out.heap {
		h := head.heap[k]
		if h == nil {
			h = e.initMem[k]
		}
		if m == h {
			continue
		}
		seen := map[int]bool{}
		var walk func(n *MemNode) bool
		addBase := func(b *smt.Term) {
			if s, ok := isFreshBase(b); ok && s > entryStamp {
				return // storage allocated inside the body
			}
			if b.Stamp > entryStamp {
				hs.whole[k] = true
				return
			}
			if !b.IsConst() && b.Op != smt.OVar && b.Op != smt.OApp {
				hs.whole[k] = true
				return
			}
			if hs.bases[k] == nil {
				hs.bases[k] = map[int]*smt.Term{}
			}
			hs.bases[k][b.ID] = b
		}
		walk = func(n *MemNode) bool {
			if n == nil {
				return false
			}
			if n == h {
				return true
			}
			if seen[n.id] {
				return true
			}
			seen[n.id] = true
			switch n.kind {
			case mInit:
				return false
			case mMerge:
				a := walk(n.a)
				b := walk(n.b)
				return a && b
			case mAppend:
				addBase(n.oBase) // in-place case writes behind the old slice; the other case is fresh storage
				return walk(n.prev)
			case mFrame:
				return walk(n.prev)
			default:
				addBase(n.a0)
				return walk(n.prev)
			}
		}
		if !walk(m) {
			hs.whole[k] = true
		}
	}
}

// bindLoopParams finds, for each parameter of the loop contract, the same-named variable of the target function.
func (e *Engine) bindLoopParams(L *ssa.Function, target *ssa.Function, li *loopInfo, st *State) []Value {
	args := make([]Value, len(L.Params))
	for i, p := range L.Params {
		v, ok := e.lookupVar(target, li, st, p.Name())
		if !ok {
			// the variable may have been renamed: if exactly one variable in scope at the loop head has the parameter's type
			// and is not claimed by another parameter of the contract, it is taken (and the fact is noted)
			if w, name, found := e.lookupByType(target, li, st, p.Type(), L); found {
				e.note("loop contract %s: no variable %q in %s; bound to %q, the only variable of type %s in scope", shortFn(L), p.Name(), shortFn(target), name, p.Type())
				v, ok = w, true
			}
		}
		if !ok {
			panic(unsupported(fmt.Sprintf("loop contract %s: no variable %q in %s at the loop head", shortFn(L), p.Name(), shortFn(target))))
		}
		if !types.Identical(v.T, p.Type()) && len(v.L) != len(e.ly.of(p.Type())) {
			panic(unsupported(fmt.Sprintf("loop contract %s: variable %q has type %s, contract says %s", shortFn(L), p.Name(), v.T, p.Type())))
		}
		v.T = p.Type()
		args[i] = v
	}
	return args
}

// lookupByType finds the one source-level variable in scope at the loop head whose type is t and whose name no parameter
// of the contract uses (fallback of bindLoopParams after a rename).
func (e *Engine) lookupByType(fn *ssa.Function, li *loopInfo, st *State, t types.Type, L *ssa.Function) (Value, string, bool) {
	claimed := map[string]bool{"rangeindex": true, "rangeslice": true}
	for _, p := range L.Params {
		claimed[p.Name()] = true
	}
	names := map[string]bool{}
	add := func(n string, ty types.Type) {
		if n == "" || claimed[n] || strings.HasPrefix(n, "t") && len(n) > 1 && n[1] >= '0' && n[1] <= '9' {
			return
		}
		if types.Identical(ty, t) {
			names[n] = true
		}
	}
	for _, p := range fn.Params {
		add(p.Name(), p.Type())
	}
	for _, fv := range fn.FreeVars {
		if pt, ok := fv.Type().(*types.Pointer); ok {
			add(fv.Name(), pt.Elem())
		}
	}
	for _, b := range fn.Blocks {
		if b != li.header && !b.Dominates(li.header) {
			continue
		}
		for _, ins := range b.Instrs {
			switch x := ins.(type) {
			case *ssa.Phi:
				add(x.Comment, x.Type())
			case *ssa.Alloc:
				if pt, ok := x.Type().(*types.Pointer); ok {
					add(x.Comment, pt.Elem())
				}
			case *ssa.DebugRef:
				if id, ok := x.Expr.(*ast.Ident); ok {
					if v, isVar := x.Object().(*types.Var); !isVar || v.IsField() {
						continue // a field selector, a constant, a function: not a local variable
					}
					ty := x.X.Type()
					if x.IsAddr {
						if pt, ok := ty.(*types.Pointer); ok {
							ty = pt.Elem()
						}
					}
					add(id.Name, ty)
				}
			}
		}
	}
	if len(names) != 1 {
		e.note("loop contract %s: candidates of type %s in scope: %v", shortFn(L), t, names)
		return Value{}, "", false
	}
	for n := range names {
		v, ok := e.lookupVar(fn, li, st, n)
		return v, n, ok
	}
	return Value{}, "", false
}

func (e *Engine) lookupVar(fn *ssa.Function, li *loopInfo, st *State, name string) (Value, bool) {
	for _, p := range fn.Params {
		if p.Name() == name {
			return st.env[p], true
		}
	}
	for _, fv := range fn.FreeVars {
		if fv.Name() == name {
			ptr := st.env[fv]
			return e.loadAt(st, ptr, fv.Type().(*types.Pointer).Elem()), true
		}
	}
	for _, ins := range li.header.Instrs {
		if p, ok := ins.(*ssa.Phi); ok && p.Comment == name {
			return st.env[p], true
		}
	}
	if name == "rangeslice" {
		// the (unnamed) slice value a `for i, x := range s` loop iterates over: s as evaluated once at loop entry
		for _, ins := range li.header.Instrs {
			if b, ok := ins.(*ssa.BinOp); ok && b.Op == token.LSS {
				if call, ok := b.Y.(*ssa.Call); ok {
					if bi, ok := call.Call.Value.(*ssa.Builtin); ok && bi.Name() == "len" && len(call.Call.Args) == 1 {
						if v, have := st.env[call.Call.Args[0]]; have {
							return v, true
						}
					}
				}
			}
		}
		return Value{}, false
	}
	// source-level variables via debug refs / named allocs in blocks dominating the header
	var found ssa.Value
	isAddr := false
	for _, b := range fn.Blocks {
		if !b.Dominates(li.header) {
			continue
		}
		for _, ins := range b.Instrs {
			switch t := ins.(type) {
			case *ssa.Phi:
				// the variable as an earlier loop (whose header dominates this one) left it
				if t.Comment == name {
					if _, have := st.env[t]; have {
						found, isAddr = t, false
					}
				}
			case *ssa.DebugRef:
				if id, ok := t.Expr.(interface{ String() string }); ok && id.String() == name {
					if _, have := st.env[t.X]; have || isConstLike(t.X) {
						found, isAddr = t.X, t.IsAddr
					}
				}
			case *ssa.Alloc:
				if t.Comment == name {
					found, isAddr = t, true
				}
			}
		}
	}
	// a variable that lives in memory (address taken: its Alloc carries the name) is read from its cell in the current
	// state - a DebugRef of its defining expression would give the value it was initialised with
	for _, b := range fn.Blocks {
		if !b.Dominates(li.header) {
			continue
		}
		for _, ins := range b.Instrs {
			if a, ok := ins.(*ssa.Alloc); ok && a.Comment == name {
				found, isAddr = a, true
			}
		}
	}
	if found == nil {
		return Value{}, false
	}
	v := e.operand(st, found)
	if isAddr {
		return e.loadAt(st, v, found.Type().(*types.Pointer).Elem()), true
	}
	return v, true
}

func isConstLike(v ssa.Value) bool {
	switch v.(type) {
	case *ssa.Const, *ssa.Global, *ssa.Function:
		return true
	}
	return false
}

func (e *Engine) loopIntrinsic(st *State, base string, args []Value, pos token.Pos, label func(int) string) (*Value, *State, bool) {
	if len(e.loopCtx) == 0 {
		panic(unsupported(base + " outside a loop contract"))
	}
	lf := e.loopCtx[len(e.loopCtx)-1]
	switch base {
	case "vInvariant":
		switch lf.phase {
		case phInit:
			e.oblige(st, lf.prefix+".init", KindInv, args[0].L[0], pos, "loop invariant holds on entry")
		case phPreserve:
			e.oblige(st, lf.prefix+".preserved", KindInv, args[0].L[0], pos, "loop invariant is preserved by the body")
		default:
			e.assumeStated(st, args[0].L[0])
		}
		return nil, st, true
	case "vStep":
		if lf.phase == phHead {
			e.oblige(st, lf.prefix+".step:"+label(0), KindStep, args[1].L[0], pos, "per-iteration postcondition "+label(0))
		}
		return nil, st, true
	case "vBody":
		if lf.phase == phInit || lf.phase == phPreserve {
			return nil, nil, true
		}
		T := &State{pc: st.pc, env: make(map[ssa.Value]Value, len(lf.headEnv)), heap: st.heap, defers: lf.headDef}
		for k, v := range lf.headEnv {
			T.env[k] = v
		}
		nRet := len(lf.fr.rets)
		out := e.runRegion(lf.fr, lf.li.blocks, lf.li.header, lf.li.header, []edgeState{{st: T}})
		if lf.phase == phDry {
			for _, ess := range out.exits {
				for _, es := range ess {
					lf.outs = append(lf.outs, es.st)
				}
			}
			for _, es := range out.back {
				lf.outs = append(lf.outs, es.st)
			}
			for _, r := range lf.fr.rets[nRet:] {
				lf.outs = append(lf.outs, r.st)
			}
			return nil, nil, true
		}
		for to, ess := range out.exits {
			for _, es := range ess {
				lf.deliver(es.from, to, es.st)
			}
		}
		B := e.enterBlock(lf.li.header, out.back)
		if B == nil {
			return nil, nil, true
		}
		lf.back = B
		// continue the contract function in the back-edge state, with its parameters rebound
		L := lf.spec.Contract
		nargs := e.bindLoopParams(L, lf.fr.fn, lf.li, B)
		st.pc = B.pc
		st.heap = copyHeap(B.heap)
		for i, p := range L.Params {
			st.env[p] = nargs[i]
		}
		for _, ins := range L.Blocks[0].Instrs {
			if s, ok := ins.(*ssa.Store); ok {
				if p, ok := s.Val.(*ssa.Parameter); ok {
					if a, ok := s.Addr.(*ssa.Alloc); ok {
						if av, have := st.env[a]; have {
							e.storeAt(st, av, st.env[p])
						}
					}
				}
			}
		}
		return nil, st, true
	}
	return nil, nil, false
}
