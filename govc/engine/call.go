package engine

import (
	"fmt"
	"go/token"
	"go/types"
	"sort"
	"strings"

	"golang.org/x/tools/go/ssa"

	"govc/smt"
)

// execCall executes a call instruction; returns the continuation state (nil if no path continues).
func (e *Engine) execCall(fr *frame, st *State, call *ssa.Call) *State {
	res, out := e.doCall(st, &call.Call, call.Pos(), call)
	if out == nil {
		return nil
	}
	if res != nil {
		out.env[call] = *res
	} else if call.Type() != nil {
		if tt, ok := call.Type().(*types.Tuple); !ok || tt.Len() > 0 {
			// callee produced no value (e.g. all paths panicked)
			return nil
		}
	}
	return out
}

// doCall evaluates a CallCommon. The result is the (tuple-flattened) value or nil for no results.
func (e *Engine) doCall(st *State, cc *ssa.CallCommon, pos token.Pos, site ssa.Instruction) (*Value, *State) {
	args := make([]Value, len(cc.Args))
	for i, a := range cc.Args {
		args[i] = e.operand(st, a)
	}
	if cc.IsInvoke() {
		recv := e.operand(st, cc.Value)
		return e.invoke(st, recv, cc.Method, args, cc.Signature(), pos)
	}
	switch f := cc.Value.(type) {
	case *ssa.Builtin:
		return e.builtin(st, f, args, cc, pos)
	case *ssa.Function:
		return e.callFunction(st, f, args, nil, pos)
	case *ssa.MakeClosure:
		fv := e.operand(st, f)
		return e.callValue(st, fv, args, cc.Signature(), pos)
	default:
		fv := e.operand(st, cc.Value)
		return e.callValue(st, fv, args, cc.Signature(), pos)
	}
}

// callValue calls through a function value.
func (e *Engine) callValue(st *State, fv Value, args []Value, sig *types.Signature, pos token.Pos) (*Value, *State) {
	id := fv.L[0]
	if id.IsConst() {
		if id.Val == 0 {
			e.safety(st, "nil", e.C.False(), pos, "call of nil function")
			return nil, nil
		}
		cl, ok := e.closures[id.Val]
		if !ok {
			panic(fmt.Sprintf("internal: unknown closure id %d", id.Val))
		}
		return e.callFunction(st, cl.fn, args, cl.bindings, pos)
	}
	// ite over known closures: split
	if id.Op == smt.OIte && id.Args[1].IsConst() && id.Args[2].IsConst() {
		cond := id.Args[0]
		sa, sb := st.clone(), st.clone()
		e.assume(sa, cond)
		e.assume(sb, e.C.Not(cond))
		ra, oa := e.callValue(sa, Value{T: fv.T, L: []*smt.Term{id.Args[1]}}, args, sig, pos)
		rb, ob := e.callValue(sb, Value{T: fv.T, L: []*smt.Term{id.Args[2]}}, args, sig, pos)
		return e.joinCallResults(ra, oa, rb, ob)
	}
	return e.opaqueCall(st, id, args, sig, pos)
}

func (e *Engine) joinCallResults(ra *Value, oa *State, rb *Value, ob *State) (*Value, *State) {
	if oa == nil || e.dead(oa) {
		return rb, ob
	}
	if ob == nil || e.dead(ob) {
		return ra, oa
	}
	// carry results through a pseudo register
	if ra != nil && rb != nil {
		oa.env[resultKey] = *ra
		ob.env[resultKey] = *rb
	}
	m := e.mergeStates([]*State{oa, ob})
	if ra != nil && rb != nil {
		r := m.env[resultKey]
		delete(m.env, resultKey)
		return &r, m
	}
	return nil, m
}

var resultKey ssa.Value = &ssa.Parameter{}

// opaqueCall models a call to an unknown function value: deterministic, pure, logged in ghost state.
func (e *Engine) opaqueCall(st *State, id *smt.Term, args []Value, sig *types.Signature, pos token.Pos) (*Value, *State) {
	c := e.C
	e.trust("unknown function values (user callbacks, merge functions) are deterministic and do not modify modelled state")
	e.safety(st, "nil", c.Ne(id, e.k64(0)), pos, "call of nil function value")
	// ghost call log: count and arguments
	cntKey := "$calls"
	cm := e.memByKey(st, cntKey, bv64, lkScalar)
	cnt := e.M.read(cm, id, e.k64(0))
	argLeaves := []*smt.Term{id}
	argSorts := []smt.Sort{bv64}
	li := 0
	// what the callee can observe: the argument leaves and, for pointers to structs (directly or inside an
	// interface), the scalar fields of the pointee at the time of the call
	var observed []Value
	for _, a := range args {
		observed = append(observed, a)
		pv := a
		if isIface(a.T) && a.L[0].IsConst() && a.L[0].Val != 0 {
			dyn := e.typeOf[a.L[0].Val]
			if _, ok := dyn.Underlying().(*types.Pointer); ok {
				pv = e.unboxIface(st, a, dyn)
			}
		}
		if pt, ok := pv.T.Underlying().(*types.Pointer); ok {
			if _, ok := pt.Elem().Underlying().(*types.Struct); ok && !(pv.L[0].IsConst() && pv.L[0].Val == 0) {
				observed = append(observed, e.loadAt(st, pv, pt.Elem()))
			}
		}
	}
	for _, a := range observed {
		for _, l := range a.L {
			k := fmt.Sprintf("$callarg%d_%s", li, l.Sort)
			am := e.memByKey(st, k, l.Sort, lkScalar)
			st.heap[k] = e.M.store(am, id, cnt, l)
			argLeaves = append(argLeaves, l)
			argSorts = append(argSorts, l.Sort)
			li++
		}
	}
	st.heap[cntKey] = e.M.store(cm, id, e.k64(0), c.Add(cnt, e.k64(1)))
	if sig.Results().Len() == 0 {
		return nil, st
	}
	rt := resultType(sig)
	lv := e.ly.of(rt)
	v := Value{T: rt, L: make([]*smt.Term, len(lv))}
	for i, lf := range lv {
		if lf.Kind == lkPtrMeta && lf.Ptee != nil {
			v.L[i] = e.k64(uint64(e.placeForPointee(lf.Ptee)))
			continue
		}
		f := c.DeclFunc(fmt.Sprintf("call_%s_n%d_%d", smt.Sanitize(sigKey(sig)), len(argSorts), i), argSorts, lf.Sort)
		v.L[i] = c.App(f, argLeaves...)
	}
	e.constrain(v)
	return &v, st
}

func resultType(sig *types.Signature) types.Type {
	if sig.Results().Len() == 1 {
		return sig.Results().At(0).Type()
	}
	return sig.Results()
}

// memByKey returns a heap array that is not tied to a Go type layout (maps, ghost logs).
func (e *Engine) memByKey(st *State, key string, sort smt.Sort, kind leafKind) *MemNode {
	if m, ok := st.heap[key]; ok {
		return m
	}
	m, ok := e.initMem[key]
	if !ok {
		m = e.M.node(MemNode{kind: mInit, sort: sort, uf: e.C.DeclFuncInitial("H_"+key, []smt.Sort{bv64, bv64}, sort)})
		e.initMem[key] = m
	}
	st.heap[key] = m
	return m
}

// callFunction dispatches a statically known callee.
func (e *Engine) callFunction(st *State, fn *ssa.Function, args []Value, bindings []Value, pos token.Pos) (*Value, *State) {
	name := shortFn(fn)
	// 1. intrinsics
	if r, out, ok := e.intrinsic(st, fn, name, args, pos); ok {
		return r, out
	}
	// 2. models substitute dependency functions
	if m := e.lookupModel(name); m != nil {
		e.trust("model " + shortFn(m) + " stands for " + name)
		fn = m
		name = shortFn(fn)
	} else if o := fn.Origin(); o != nil {
		key := stripTypeArgs(shortFn(o))
		if m := e.lookupModel(key); m != nil {
			e.trust("model " + shortFn(m) + " stands for " + key)
			fn = m
			name = shortFn(fn)
		}
	}
	// 3. natively modelled library functions
	if r, out, ok := e.native(st, fn, name, args, pos); ok {
		return r, out
	}
	// 4. contract in use-mode
	if ct, ok := e.W.Contracts[name]; ok && ct.UseAtCalls && !e.harness.Real[name] && (!ct.OptIn || e.harness.Use[name]) && !e.inWrapperOf(name) && e.contractInScope(ct) {
		return e.useContract(st, ct, fn, args, pos)
	}
	if e.inWrapperOf(name) && e.curCtr().mode == modeUse {
		return e.havocTargetCall(st, fn, args, pos)
	}
	if e.inWrapperOf(name) {
		e.curCtr().oldHeap = copyHeap(st.heap)
	}
	if len(fn.Blocks) == 0 {
		panic(unsupported("call to function without body or model: " + name))
	}
	if !e.W.mayInline(fn) {
		if strings.HasPrefix(name, "fmt.Print") || strings.HasPrefix(name, "fmt.Fprint") || strings.HasPrefix(name, "log.") {
			// diagnostic output (a debug line added to the code under contract): no effect on the modelled state
			e.trust("diagnostic output function " + name + " has no effect on the modelled state")
			if fn.Signature.Results().Len() == 0 {
				return nil, st
			}
			r := e.symbolic(resultType(fn.Signature), "ret_"+fn.Name())
			return &r, st
		}
		panic(unsupported("call to dependency function without model/contract/allow-list entry: " + name))
	}
	return e.inline(st, fn, args, bindings, pos)
}

func copyHeap(h map[string]*MemNode) map[string]*MemNode {
	n := make(map[string]*MemNode, len(h))
	for k, v := range h {
		n[k] = v
	}
	return n
}

func (e *Engine) inline(st *State, fn *ssa.Function, args []Value, bindings []Value, pos token.Pos) (*Value, *State) {
	if p := fn.Package(); p != nil && e.W.Repo[p.Pkg.Path()] {
		n := shortFn(fn)
		if b := fn.Name(); !(len(b) > 1 && (b[0] == 'v' || b[0] == 'V') && b[1] >= 'A' && b[1] <= 'Z') && !strings.Contains(n, ".v") {
			e.realFns[n] = true // a function of the code under verification executed from its real body
		}
	}
	if e.depth >= e.W.MaxDepth {
		panic(unsupported("inline depth exceeded at " + shortFn(fn)))
	}
	for _, s := range e.callStack {
		if s == shortFn(fn) && fn.Synthetic == "" {
			cnt := 0
			for _, s2 := range e.callStack {
				if s2 == s {
					cnt++
				}
			}
			if cnt > 2 {
				panic(unsupported("recursion through " + s))
			}
		}
	}
	e.depth++
	e.callStack = append(e.callStack, shortFn(fn))
	defer func() { e.depth--; e.callStack = e.callStack[:len(e.callStack)-1] }()

	env := make(map[ssa.Value]Value, len(fn.Params)+len(fn.FreeVars)+16)
	if len(args) != len(fn.Params) {
		panic(fmt.Sprintf("internal: arity mismatch calling %s: %d vs %d", shortFn(fn), len(args), len(fn.Params)))
	}
	for i, p := range fn.Params {
		a := args[i]
		a.T = p.Type()
		env[p] = a
	}
	if len(bindings) != len(fn.FreeVars) {
		panic(fmt.Sprintf("internal: closure binding mismatch calling %s", shortFn(fn)))
	}
	for i, fv := range fn.FreeVars {
		env[fv] = bindings[i]
	}
	callee := st.withEnv(env)
	callee.heap = st.heap
	rets := e.execBody(fn, callee)
	if len(rets) == 0 {
		return nil, nil
	}
	if e.paths && len(rets) > 1 {
		// path mode: every way out of the callee continues separately in the caller
		nres := fn.Signature.Results().Len()
		var outs []callOut
		for _, r := range rets {
			if e.dead(r.st) {
				continue
			}
			o := &State{pc: r.st.pc, heap: r.st.heap, defers: st.defers, derived: r.st.derived}
			o.env = make(map[ssa.Value]Value, len(st.env)+1)
			for k, v := range st.env {
				o.env[k] = v
			}
			var val *Value
			if nres > 0 {
				var l []*smt.Term
				for _, v := range r.vals {
					l = append(l, v.L...)
				}
				val = &Value{T: resultType(fn.Signature), L: l}
			}
			outs = append(outs, callOut{val: val, st: o})
		}
		if len(outs) == 0 {
			return nil, nil
		}
		if len(e.pending) > 0 {
			panic(unsupported("nested multi-outcome calls in one instruction (path mode)"))
		}
		e.pending = outs[1:]
		return outs[0].val, outs[0].st
	}
	var states []*State
	nres := fn.Signature.Results().Len()
	for _, r := range rets {
		s := r.st
		if nres > 0 {
			var l []*smt.Term
			for _, v := range r.vals {
				l = append(l, v.L...)
			}
			s.env[resultKey] = Value{T: resultType(fn.Signature), L: l}
		}
		states = append(states, s)
	}
	m := e.mergeStates(states)
	if m == nil {
		return nil, nil
	}
	out := &State{pc: m.pc, env: st.env, heap: m.heap, defers: st.defers, derived: m.derived}
	// env of the caller must be private to this path from now on
	out.env = make(map[ssa.Value]Value, len(st.env)+1)
	for k, v := range st.env {
		out.env[k] = v
	}
	if nres > 0 {
		r := m.env[resultKey]
		return &r, out
	}
	return nil, out
}

func (e *Engine) runDefers(fr *frame, st *State) *State {
	saveP := e.paths
	e.paths = false // deferred calls are joined
	defer func() { e.paths = saveP }()
	for len(st.defers) > 0 {
		d := st.defers[len(st.defers)-1]
		st.defers = st.defers[:len(st.defers)-1]
		saved := st.defers
		st.defers = nil
		var out *State
		cc := d.call
		switch {
		case cc.IsInvoke():
			_, out = e.invoke(st, d.fn, cc.Method, d.args, cc.Signature(), d.pos)
		default:
			if b, ok := cc.Value.(*ssa.Builtin); ok {
				_, out = e.builtin(st, b, d.args, cc, d.pos)
			} else if f, ok := cc.Value.(*ssa.Function); ok {
				_, out = e.callFunction(st, f, d.args, nil, d.pos)
			} else {
				_, out = e.callValue(st, d.fn, d.args, cc.Signature(), d.pos)
			}
		}
		if out == nil {
			return nil
		}
		out.defers = saved
		st = out
	}
	return st
}

// ---------------------------------------------------------------- builtins

func (e *Engine) builtin(st *State, b *ssa.Builtin, args []Value, cc *ssa.CallCommon, pos token.Pos) (*Value, *State) {
	c := e.C
	intT := types.Typ[types.Int]
	one := func(t *smt.Term, ty types.Type) *Value { return &Value{T: ty, L: []*smt.Term{t}} }
	switch b.Name() {
	case "len":
		x := args[0]
		switch x.T.Underlying().(type) {
		case *types.Slice, *types.Basic:
			return one(x.L[2], intT), st
		case *types.Map:
			m := e.memByKey(st, "maplen:"+typeKey(x.T), bv64, lkLen)
			l := e.M.read(m, x.L[0], e.k64(0))
			e.axiom(c.Ult(l, e.k64(maxLen)))
			return one(l, intT), st
		case *types.Pointer:
			at := x.T.Underlying().(*types.Pointer).Elem().Underlying().(*types.Array)
			return one(e.k64(uint64(at.Len())), intT), st
		case *types.Array:
			return one(e.k64(uint64(x.T.Underlying().(*types.Array).Len())), intT), st
		}
	case "cap":
		x := args[0]
		if _, ok := x.T.Underlying().(*types.Slice); ok {
			return one(x.L[3], intT), st
		}
	case "append":
		v := e.appendOp(st, args[0], args[1], pos)
		return &v, st
	case "copy":
		dst, src := args[0], args[1]
		n := c.Ite(c.Ult(dst.L[2], src.L[2]), dst.L[2], src.L[2])
		elem := dst.T.Underlying().(*types.Slice).Elem()
		e.copyCells(st, elem, dst.L[0], dst.L[1], src.L[0], src.L[1], n)
		return one(n, intT), st
	case "delete":
		e.mapDelete(st, args[0], args[1])
		return nil, st
	case "print", "println":
		return nil, st
	case "ssa:wrapnilchk":
		e.nilCheck(st, args[0], pos)
		v := args[0]
		return &v, st
	case "min", "max":
		if len(args) == 2 && !isFloat(args[0].T) && !isString(args[0].T) {
			a, bb := args[0].L[0], args[1].L[0]
			var lt *smt.Term
			if isSigned(args[0].T) {
				lt = c.Slt(a, bb)
			} else {
				lt = c.Ult(a, bb)
			}
			if b.Name() == "min" {
				return one(c.Ite(lt, a, bb), args[0].T), st
			}
			return one(c.Ite(lt, bb, a), args[0].T), st
		}
	}
	panic(unsupported("builtin " + b.Name()))
}

// appendOp models append(s, t...) exactly: in place when the capacity suffices, else into fresh storage.
// One mAppend layer per element leaf records both cases; reads through the result do not depend on which happened.
func (e *Engine) appendOp(st *State, s, t Value, pos token.Pos) Value {
	c := e.C
	elem := s.T.Underlying().(*types.Slice).Elem()
	if len(t.L) == 0 { // append(s) or nil
		return s
	}
	tb, to, tn := t.L[0], t.L[1], t.L[2]
	if tn.IsConst() && tn.Val == 0 {
		return s
	}
	base, off, ln, cp := s.L[0], s.L[1], s.L[2], s.L[3]
	newLen := c.Add(ln, tn)
	fits := c.Ule(newLen, cp)
	if tn.IsConst() {
		// growing a slice by a positive amount never fits a nil/zero-capacity slice
		fits = c.And(fits, c.Ne(cp, e.k64(0)))
	}
	nb := e.freshBase()
	ncap := c.FreshVar("cap", bv64)
	e.axiom(c.Ult(ncap, e.k64(maxLen)))
	e.axiom(c.Ule(newLen, ncap))
	resBase := c.Ite(fits, base, nb)
	resOff := c.Ite(fits, off, e.k64(0))
	srcElem := elem
	if isString(t.T) {
		srcElem = types.Typ[types.Uint8]
	}
	for j, lf := range e.ly.of(elem) {
		k := heapKey(elem, j)
		m := e.memFor(st, elem, j)
		src := e.memFor(st, srcElem, j)
		st.heap[k] = e.M.node(MemNode{kind: mAppend, prev: m, sort: m.sort, a0: resBase, a1: resOff,
			oBase: base, oOff: off, oLen: ln, n: tn, fits: fits, src: src, s0: tb, s1: to, zero: e.zeroLeaf(lf)})
	}
	return Value{T: s.T, L: []*smt.Term{resBase, resOff, newLen, c.Ite(fits, cp, ncap)}}
}

// ---------------------------------------------------------------- interfaces

func (e *Engine) makeInterface(st *State, x Value, ifaceT types.Type) Value {
	if isIface(x.T) {
		return Value{T: ifaceT, L: x.L}
	}
	tag := e.typeTag(x.T)
	if _, ok := x.T.Underlying().(*types.Pointer); ok {
		return Value{T: ifaceT, L: []*smt.Term{tag, x.L[0], x.L[1], x.L[2]}}
	}
	// box the value
	e.boxes++
	p := e.newObject(st, x.T, types.NewPointer(x.T))
	e.storeAt(st, p, x)
	return Value{T: ifaceT, L: []*smt.Term{tag, p.L[0], p.L[1], p.L[2]}}
}

func (e *Engine) unboxIface(st *State, iv Value, dyn types.Type) Value {
	if _, ok := dyn.Underlying().(*types.Pointer); ok {
		pl := e.k64(uint64(e.placeForPointee(dyn.Underlying().(*types.Pointer).Elem())))
		a2 := iv.L[3]
		if !a2.IsConst() || a2.Val == 0 {
			a2 = pl
		}
		return Value{T: dyn, L: []*smt.Term{iv.L[1], iv.L[2], a2}}
	}
	p := Value{T: types.NewPointer(dyn), L: []*smt.Term{iv.L[1], iv.L[2], e.k64(uint64(e.placeForPointee(dyn)))}}
	return e.loadAt(st, p, dyn)
}

func (e *Engine) typeAssert(st *State, t *ssa.TypeAssert) Value {
	c := e.C
	x := e.operand(st, t.X)
	tag := x.L[0]
	var ok *smt.Term
	var val Value
	if isIface(t.AssertedType) {
		ok = e.implements(tag, t.AssertedType)
		val = Value{T: t.AssertedType, L: x.L}
	} else {
		ok = c.Eq(tag, e.typeTag(t.AssertedType))
		if ok.IsFalse() {
			val = e.zero(t.AssertedType)
		} else {
			val = e.unboxIface(st, x, t.AssertedType)
		}
	}
	if !t.CommaOk {
		e.safety(st, "typeassert", ok, t.Pos(), "type assertion to "+t.AssertedType.String()+" fails")
		return val
	}
	z := e.zero(t.AssertedType)
	val = e.iteValue(ok, val, z)
	return Value{T: t.Type(), L: append(append([]*smt.Term{}, val.L...), ok)}
}

// implements decides (or abstracts) whether the dynamic type behind tag implements iface.
func (e *Engine) implements(tag *smt.Term, iface types.Type) *smt.Term {
	c := e.C
	it := iface.Underlying().(*types.Interface)
	decide := func(id uint64) *smt.Term {
		if id == 0 {
			return c.False()
		}
		return c.Bool(types.Implements(e.typeOf[id], it))
	}
	if tag.IsConst() {
		return decide(tag.Val)
	}
	if tag.Op == smt.OIte && tag.Args[1].IsConst() && tag.Args[2].IsConst() {
		return c.Ite(tag.Args[0], decide(tag.Args[1].Val), decide(tag.Args[2].Val))
	}
	f := c.DeclFunc("implements_"+smt.Sanitize(typeKey(iface)), []smt.Sort{bv64}, smt.BoolSort)
	e.axiom(c.Not(c.App(f, e.k64(0))))
	e.ifaceAsserts[typeKey(iface)] = iface
	return c.App(f, tag)
}

func (e *Engine) ifaceEq(st *State, x, y Value) *smt.Term {
	c := e.C
	if len(y.L) == 0 || isNilConst(y) {
		return c.Eq(x.L[0], e.k64(0))
	}
	if len(x.L) == 0 || isNilConst(x) {
		return c.Eq(y.L[0], e.k64(0))
	}
	return c.And(c.Eq(x.L[0], y.L[0]), c.Eq(x.L[1], y.L[1]), c.Eq(x.L[2], y.L[2]))
}

// invoke dispatches an interface method call.
func (e *Engine) invoke(st *State, recv Value, method *types.Func, args []Value, sig *types.Signature, pos token.Pos) (*Value, *State) {
	c := e.C
	tag := recv.L[0]
	if tag.IsConst() {
		if tag.Val == 0 {
			e.safety(st, "nil", c.False(), pos, "method call on nil interface")
			return nil, nil
		}
		dyn := e.typeOf[tag.Val]
		fn := e.W.Prog.LookupMethod(dyn, method.Pkg(), method.Name())
		if fn == nil {
			panic(unsupported(fmt.Sprintf("no method %s on %s", method.Name(), dyn)))
		}
		rv := e.unboxIface(st, recv, dyn)
		return e.callFunction(st, fn, append([]Value{rv}, args...), nil, pos)
	}
	if tag.Op == smt.OIte && tag.Args[1].IsConst() && tag.Args[2].IsConst() {
		cond := tag.Args[0]
		sa, sb := st.clone(), st.clone()
		e.assume(sa, cond)
		e.assume(sb, c.Not(cond))
		mk := func(s *State, tg *smt.Term) Value {
			l := make([]*smt.Term, len(recv.L))
			for i := range recv.L {
				l[i] = c.AssumeTrue(recv.L[i], s.pc[len(s.pc)-1:])
			}
			l[0] = tg
			return Value{T: recv.T, L: l}
		}
		ra, oa := e.invoke(sa, mk(sa, tag.Args[1]), method, args, sig, pos)
		rb, ob := e.invoke(sb, mk(sb, tag.Args[2]), method, args, sig, pos)
		return e.joinCallResults(ra, oa, rb, ob)
	}
	// unknown dynamic type: interface contract or model required
	key := ifaceMethodKey(recv.T, method)
	if m := e.lookupModel(key); m != nil {
		e.trust("interface model " + shortFn(m) + " stands for " + key)
		return e.callFunction(st, m, append([]Value{recv}, args...), nil, pos)
	}
	panic(unsupported("invoke of " + key + " on unknown dynamic type without interface model"))
}

func ifaceMethodKey(t types.Type, m *types.Func) string {
	name := types.TypeString(t, func(p *types.Package) string { return p.Name() })
	return name + "." + m.Name()
}

// ---------------------------------------------------------------- strings

func (e *Engine) strID(v Value) *smt.Term {
	c := e.C
	if s, ok := e.litOf(v); ok {
		id, ok := e.litIDs[s]
		if !ok {
			id = uint64(len(e.litIDs))
			if s != "" {
				id++
			} else {
				id = 0
			}
			if s == "" {
				id = 0
			}
			e.litIDs[s] = id
		}
		t := e.k64(id)
		e.axiom(c.Eq(c.App(e.sidLen(), t), e.k64(uint64(len(s)))))
		return t
	}
	f := c.DeclFunc("strid", []smt.Sort{bv64, bv64, bv64}, bv64)
	// bridge: a string that may be one of the program's literals (e.g. after a join) has that literal's id
	if e.litBridged == nil {
		e.litBridged = map[string]bool{}
	}
	lits := make([]string, 0, len(e.strLits))
	for s := range e.strLits {
		if !e.litBridged[s] && s != "" {
			lits = append(lits, s)
		}
	}
	sort.Strings(lits)
	for _, s := range lits {
		e.litBridged[s] = true
		lv := e.strLits[s]
		id := e.strID(Value{T: types.Typ[types.String], L: lv.L})
		e.axiom(c.Eq(c.App(f, lv.L[0], lv.L[1], lv.L[2]), id))
	}
	t := c.App(f, v.L[0], v.L[1], v.L[2])
	e.axiom(c.Eq(c.App(e.sidLen(), t), v.L[2]))
	e.axiom(c.Implies(c.Eq(v.L[2], e.k64(0)), c.Eq(t, e.k64(0))))
	return t
}

func (e *Engine) sidLen() *smt.Func {
	return e.C.DeclFunc("sidlen", []smt.Sort{bv64}, bv64)
}

func (e *Engine) stringEq(st *State, x, y Value) *smt.Term {
	c := e.C
	sx, okx := e.litOf(x)
	sy, oky := e.litOf(y)
	if okx && oky {
		return c.Bool(sx == sy)
	}
	if x.L[0] == y.L[0] && x.L[1] == y.L[1] && x.L[2] == y.L[2] {
		return c.True()
	}
	if okx && sx == "" {
		return c.Eq(y.L[2], e.k64(0))
	}
	if oky && sy == "" {
		return c.Eq(x.L[2], e.k64(0))
	}
	e.trust("string equality is equality of abstract content ids (strid)")
	return c.Eq(e.strID(x), e.strID(y))
}

func (e *Engine) stringCompare(st *State, op token.Token, x, y Value) *smt.Term {
	c := e.C
	ix, iy := e.strID(x), e.strID(y)
	f := c.DeclFunc("strlt", []smt.Sort{bv64, bv64}, smt.BoolSort)
	lt := func(a, b *smt.Term) *smt.Term {
		if a == b {
			return c.False()
		}
		l, g := c.App(f, a, b), c.App(f, b, a)
		e.axiom(c.Implies(c.Eq(a, b), c.And(c.Not(l), c.Not(g))))
		e.axiom(c.Implies(c.Ne(a, b), c.Ne(l, g)))
		return l
	}
	e.trust("string ordering is an uninterpreted strict total order on content ids")
	switch op {
	case token.LSS:
		return lt(ix, iy)
	case token.GTR:
		return lt(iy, ix)
	case token.LEQ:
		return c.Not(lt(iy, ix))
	case token.GEQ:
		return c.Not(lt(ix, iy))
	}
	panic("stringCompare")
}

func (e *Engine) stringConcat(st *State, x, y Value, resT types.Type) Value {
	c := e.C
	base := e.freshBase()
	e.copyBytes(st, base, e.k64(0), x.L[0], x.L[1], x.L[2])
	e.copyBytes(st, base, x.L[2], y.L[0], y.L[1], y.L[2])
	n := c.Add(x.L[2], y.L[2])
	return Value{T: resT, L: []*smt.Term{base, e.k64(0), n}}
}

// ---------------------------------------------------------------- maps

func (e *Engine) mapKeyTerm(k Value) *smt.Term {
	if isString(k.T) {
		return e.strID(k)
	}
	if b, ok := k.T.Underlying().(*types.Basic); ok && b.Info()&types.IsInteger != 0 {
		return e.C.Resize(k.L[0], 64, false)
	}
	panic(unsupported("map key type " + k.T.String()))
}

func (e *Engine) mapMems(st *State, mt types.Type) (string, []string, []leaf) {
	mtyp := mt.Underlying().(*types.Map)
	tk := typeKey(mt.Underlying())
	lv := e.ly.of(mtyp.Elem())
	keys := make([]string, len(lv))
	for j := range lv {
		keys[j] = fmt.Sprintf("map:%s#v%d", tk, j)
	}
	return "map:" + tk + "#p", keys, lv
}

func (e *Engine) makeMap(st *State, mt types.Type) Value {
	ref := e.freshBase()
	pk, vks, lv := e.mapMems(st, mt)
	pm := e.memByKey(st, pk, smt.BoolSort, lkScalar)
	st.heap[pk] = e.M.node(MemNode{kind: mZero, prev: pm, sort: pm.sort, a0: ref, val: e.C.False()})
	for j, k := range vks {
		vm := e.memByKey(st, k, lv[j].Sort, lv[j].Kind)
		st.heap[k] = e.M.node(MemNode{kind: mZero, prev: vm, sort: vm.sort, a0: ref, val: e.zeroLeaf(lv[j])})
	}
	lk := "maplen:" + typeKey(mt)
	lm := e.memByKey(st, lk, bv64, lkLen)
	st.heap[lk] = e.M.store(lm, ref, e.k64(0), e.k64(0))
	return Value{T: mt, L: []*smt.Term{ref}}
}

func (e *Engine) mapUpdate(st *State, m, k, v Value, pos token.Pos) {
	e.safety(st, "nil", e.C.Ne(m.L[0], e.k64(0)), pos, "assignment to entry in nil map")
	kt := e.mapKeyTerm(k)
	pk, vks, lv := e.mapMems(st, m.T)
	pm := e.memByKey(st, pk, smt.BoolSort, lkScalar)
	st.heap[pk] = e.M.store(pm, m.L[0], kt, e.C.True())
	for j, key := range vks {
		vm := e.memByKey(st, key, lv[j].Sort, lv[j].Kind)
		st.heap[key] = e.M.store(vm, m.L[0], kt, v.L[j])
	}
	e.havocMapLen(st, m)
}

func (e *Engine) havocMapLen(st *State, m Value) {
	lk := "maplen:" + typeKey(m.T)
	lm := e.memByKey(st, lk, bv64, lkLen)
	nl := e.C.FreshVar("maplen", bv64)
	e.axiom(e.C.Ult(nl, e.k64(maxLen)))
	st.heap[lk] = e.M.store(lm, m.L[0], e.k64(0), nl)
}

func (e *Engine) mapDelete(st *State, m, k Value) {
	kt := e.mapKeyTerm(k)
	pk, _, _ := e.mapMems(st, m.T)
	pm := e.memByKey(st, pk, smt.BoolSort, lkScalar)
	// delete on a nil map is a no-op; writes to ref 0 are harmless in the model
	st.heap[pk] = e.M.store(pm, m.L[0], kt, e.C.False())
	e.havocMapLen(st, m)
}

func (e *Engine) lookup(st *State, t *ssa.Lookup) Value {
	x := e.operand(st, t.X)
	idx := e.operand(st, t.Index)
	if isString(x.T) {
		return e.indexValue(st, x, idx, t.Type(), t.Pos())
	}
	kt := e.mapKeyTerm(idx)
	pk, vks, lv := e.mapMems(st, x.T)
	pm := e.memByKey(st, pk, smt.BoolSort, lkScalar)
	present := e.M.read(pm, x.L[0], kt)
	present = e.C.And(e.C.Ne(x.L[0], e.k64(0)), present)
	elemT := x.T.Underlying().(*types.Map).Elem()
	val := Value{T: elemT, L: make([]*smt.Term, len(lv))}
	for j, key := range vks {
		vm := e.memByKey(st, key, lv[j].Sort, lv[j].Kind)
		val.L[j] = e.M.read(vm, x.L[0], kt)
	}
	e.constrain(val)
	val = e.iteValue(present, val, e.zero(elemT))
	if t.CommaOk {
		return Value{T: t.Type(), L: append(append([]*smt.Term{}, val.L...), present)}
	}
	return val
}

// shortFn names a function as "<pkgname>.<relative name>", e.g. commit.(*Buffer).writeChunk, column.makeInt16s$2.
func shortFn(fn *ssa.Function) string {
	pkg := fn.Package()
	o := fn
	for pkg == nil && o != nil {
		if o.Origin() != nil {
			o = o.Origin()
		} else if o.Parent() != nil {
			o = o.Parent()
		} else {
			break
		}
		pkg = o.Package()
	}
	if pkg == nil {
		// wrappers/thunks: use the object's package if any
		if fn.Object() != nil && fn.Object().Pkg() != nil {
			return fn.Object().Pkg().Name() + "." + strings.TrimPrefix(fn.String(), fn.Object().Pkg().Path()+".")
		}
		return fn.String()
	}
	rel := fn.RelString(pkg.Pkg)
	// strip package paths inside type arguments for readability
	rel = strings.ReplaceAll(rel, pkg.Pkg.Path()+".", "")
	return pkg.Pkg.Name() + "." + rel
}

// sigKey names a signature by its parameter and result types only (parameter names do not matter).
func sigKey(sig *types.Signature) string {
	var sb strings.Builder
	sb.WriteString("func(")
	for i := 0; i < sig.Params().Len(); i++ {
		if i > 0 {
			sb.WriteString(",")
		}
		sb.WriteString(typeKey(sig.Params().At(i).Type()))
	}
	sb.WriteString(")")
	for i := 0; i < sig.Results().Len(); i++ {
		sb.WriteString("," + typeKey(sig.Results().At(i).Type()))
	}
	return sb.String()
}

// lookupModel: the model that stands for target in the current harness - the one declared by the harness's own
// package, else a global one; none when the harness verifies the real body (real=target).
func (e *Engine) lookupModel(target string) *ssa.Function {
	if e.harness.Real[target] {
		return nil // the harness verifies the real body of a function of /repo that other harnesses replace by a model
	}
	p := e.harness.Fn.Package()
	if p == nil && e.harness.Fn.Origin() != nil {
		p = e.harness.Fn.Origin().Package()
	}
	if p != nil {
		if m, ok := e.W.Models[target+"@"+p.Pkg.Path()]; ok {
			return m
		}
	}
	if m, ok := e.W.Models[target]; ok {
		return m
	}
	return nil
}

// stripTypeArgs removes [...] type argument / parameter lists from a function name.
func stripTypeArgs(s string) string {
	var sb strings.Builder
	depth := 0
	for _, r := range s {
		switch {
		case r == '[':
			depth++
		case r == ']':
			depth--
		case depth == 0:
			sb.WriteRune(r)
		}
	}
	return sb.String()
}

func (e *Engine) contractInScope(ct *Contract) bool {
	p := e.harness.Fn.Package()
	if p == nil && e.harness.Fn.Origin() != nil {
		p = e.harness.Fn.Origin().Package()
	}
	return p == nil || ct.Pkg == "" || ct.Pkg == p.Pkg.Path()
}
