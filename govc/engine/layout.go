package engine

import (
	"fmt"
	"go/types"
	"regexp"

	"govc/smt"
)

// Value is a Go value flattened into SMT leaves according to its type layout.
type Value struct {
	T types.Type
	L []*smt.Term
}

type leafKind int

const (
	lkScalar  leafKind = iota // plain integer/bool/float bits
	lkBase                    // object/backing-store identity (pointer a0, slice/string base, map ref, iface payload a0)
	lkIndex                   // pointer a1 / slice off
	lkLen                     // slice/string len
	lkCap                     // slice cap
	lkPtrMeta                 // pointer a2 (interned place id)
	lkFunc                    // function value id
	lkTag                     // interface dynamic type tag
)

type leaf struct {
	Sort smt.Sort
	Kind leafKind
	Name string     // path name for diagnostics
	Ptee types.Type // for lkPtrMeta: static pointee type (nil for unsafe.Pointer / iface payload)
}

var bv64 = smt.BV(64)

type layouts struct {
	memo map[string][]leaf
}

var aliasRe = regexp.MustCompile(`\b(byte|rune|any)\b`)

func typeKey(t types.Type) string {
	s := types.TypeString(t, func(p *types.Package) string { return p.Path() })
	return aliasRe.ReplaceAllStringFunc(s, func(m string) string {
		switch m {
		case "byte":
			return "uint8"
		case "rune":
			return "int32"
		}
		return "interface{}"
	})
}

func (ly *layouts) of(t types.Type) []leaf {
	k := typeKey(t)
	if l, ok := ly.memo[k]; ok {
		return l
	}
	l := ly.compute(t, "")
	ly.memo[k] = l
	return l
}

func (ly *layouts) compute(t types.Type, name string) []leaf {
	switch u := t.Underlying().(type) {
	case *types.Basic:
		switch {
		case u.Kind() == types.UnsafePointer:
			return []leaf{{bv64, lkBase, name + ".a0", nil}, {bv64, lkIndex, name + ".a1", nil}, {bv64, lkPtrMeta, name + ".a2", nil}}
		case u.Info()&types.IsBoolean != 0:
			return []leaf{{smt.BoolSort, lkScalar, name, nil}}
		case u.Info()&types.IsString != 0:
			return []leaf{{bv64, lkBase, name + ".base", nil}, {bv64, lkIndex, name + ".off", nil}, {bv64, lkLen, name + ".len", nil}}
		case u.Info()&(types.IsInteger|types.IsFloat) != 0:
			return []leaf{{smt.BV(basicWidth(u)), lkScalar, name, nil}}
		case u.Kind() == types.UntypedNil:
			return nil
		}
		panic(unsupported("basic type " + u.String()))
	case *types.Pointer:
		return []leaf{{bv64, lkBase, name + ".a0", nil}, {bv64, lkIndex, name + ".a1", nil}, {bv64, lkPtrMeta, name + ".a2", u.Elem()}}
	case *types.Slice:
		// (Ptee of the base leaf of a slice: its element type, used by the typed-separation axiom)
		return []leaf{{bv64, lkBase, name + ".base", u.Elem()}, {bv64, lkIndex, name + ".off", nil}, {bv64, lkLen, name + ".len", nil}, {bv64, lkCap, name + ".cap", nil}}
	case *types.Map, *types.Chan:
		return []leaf{{bv64, lkBase, name + ".ref", nil}}
	case *types.Signature:
		return []leaf{{bv64, lkFunc, name + ".fn", nil}}
	case *types.Interface:
		return []leaf{{bv64, lkTag, name + ".tag", nil}, {bv64, lkBase, name + ".a0", nil}, {bv64, lkIndex, name + ".a1", nil}, {bv64, lkPtrMeta, name + ".a2", nil}}
	case *types.Struct:
		var out []leaf
		for i := 0; i < u.NumFields(); i++ {
			f := u.Field(i)
			out = append(out, ly.compute(f.Type(), name+"."+f.Name())...)
		}
		return out
	case *types.Array:
		var out []leaf
		if u.Len() > 64 {
			panic(unsupported(fmt.Sprintf("array value of length %d", u.Len())))
		}
		for i := int64(0); i < u.Len(); i++ {
			out = append(out, ly.compute(u.Elem(), fmt.Sprintf("%s[%d]", name, i))...)
		}
		return out
	case *types.Tuple:
		var out []leaf
		for i := 0; i < u.Len(); i++ {
			out = append(out, ly.compute(u.At(i).Type(), fmt.Sprintf("%s.%d", name, i))...)
		}
		return out
	}
	panic(unsupported("type " + t.String()))
}

func basicWidth(b *types.Basic) int {
	switch b.Kind() {
	case types.Int8, types.Uint8:
		return 8
	case types.Int16, types.Uint16:
		return 16
	case types.Int32, types.Uint32, types.Float32:
		return 32
	case types.UntypedRune:
		return 32
	}
	return 64
}

func isSigned(t types.Type) bool {
	b, ok := t.Underlying().(*types.Basic)
	return ok && b.Info()&types.IsInteger != 0 && b.Info()&types.IsUnsigned == 0
}

func isFloat(t types.Type) bool {
	b, ok := t.Underlying().(*types.Basic)
	return ok && b.Info()&types.IsFloat != 0
}

func isString(t types.Type) bool {
	b, ok := t.Underlying().(*types.Basic)
	return ok && b.Info()&types.IsString != 0
}

func isBool(t types.Type) bool {
	b, ok := t.Underlying().(*types.Basic)
	return ok && b.Info()&types.IsBoolean != 0
}

func isIface(t types.Type) bool {
	_, ok := t.Underlying().(*types.Interface)
	return ok
}

func isPointer(t types.Type) bool {
	if _, ok := t.Underlying().(*types.Pointer); ok {
		return true
	}
	b, ok := t.Underlying().(*types.Basic)
	return ok && b.Kind() == types.UnsafePointer
}

// fieldRange gives the leaf range [start, start+n) of field i in struct type st.
func (ly *layouts) fieldRange(st *types.Struct, i int) (int, int) {
	start := 0
	for j := 0; j < i; j++ {
		start += len(ly.of(st.Field(j).Type()))
	}
	return start, len(ly.of(st.Field(i).Type()))
}

type unsupportedErr struct{ msg string }

func (u unsupportedErr) Error() string { return "unsupported: " + u.msg }
func unsupported(msg string) error     { return unsupportedErr{msg} }

// place identifies what a pointer's a2 leaf denotes: which heap arrays the pointee's leaves live in.
type place struct {
	Root    types.Type // element/object type whose leaves key the heap
	Off     int        // leaf offset inside Root
	Ptee    types.Type // pointee type
	ArrayOf bool       // pointer to an array object whose elements are Root-typed cells indexed by a1
}

type places struct {
	byKey map[string]int
	list  []place
}

func (p *places) intern(pl place) int {
	k := fmt.Sprintf("%s|%d|%s|%v", typeKey(pl.Root), pl.Off, typeKey(pl.Ptee), pl.ArrayOf)
	if id, ok := p.byKey[k]; ok {
		return id
	}
	p.list = append(p.list, pl)
	id := len(p.list) // ids start at 1; 0 = unknown
	p.byKey[k] = id
	return id
}

func (p *places) get(id int) place { return p.list[id-1] }
