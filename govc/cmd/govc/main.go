// govc: contract-based deductive verification of Go functions via go/ssa symbolic execution and SMT.
package main

import (
	"encoding/json"
	"flag"
	"fmt"
	"os"
	"path/filepath"
	"regexp"
	"runtime/pprof"
	"sort"
	"strings"
	"sync"
	"time"

	"govc/engine"
	"govc/smt"
)

func main() {
	if len(os.Args) < 2 {
		fmt.Fprintln(os.Stderr, "usage: govc check|list ...")
		os.Exit(2)
	}
	switch os.Args[1] {
	case "check":
		os.Exit(cmdCheck(os.Args[2:]))
	case "list":
		os.Exit(cmdList(os.Args[2:]))
	default:
		if f, ok := extraCommands[os.Args[1]]; ok {
			os.Exit(f(os.Args[2:]))
		}
		fmt.Fprintln(os.Stderr, "unknown command", os.Args[1])
		os.Exit(2)
	}
}

var extraCommands = map[string]func([]string) int{}

func cmdList(args []string) int {
	fs := flag.NewFlagSet("list", flag.ExitOnError)
	repo := fs.String("repo", "/repo", "repository")
	fs.Parse(args)
	w, err := engine.Load(*repo, "verif")
	if err != nil {
		fmt.Fprintln(os.Stderr, err)
		return 2
	}
	for _, h := range w.Harnesses {
		fmt.Printf("%-8s %-60s props=%s target=%s\n", h.Kind, h.Name, strings.Join(h.Props, ","), h.Target)
	}
	return 0
}

type findingsFile struct {
	Findings []finding `json:"findings"`
	Fixed    []string  `json:"fixed"`
}

type finding struct {
	ID          string   `json:"id"`
	Properties  []string `json:"properties"`
	Obligations []string `json:"obligations"` // obligation names (prefix match up to '@')
	What        string   `json:"what"`
	Scenario    string   `json:"scenario,omitempty"`
}

func cmdCheck(args []string) int {
	fs := flag.NewFlagSet("check", flag.ExitOnError)
	repo := fs.String("repo", "/repo", "repository to verify (current working tree)")
	prop := fs.String("prop", "", "property id (harnesses tagged with it are run)")
	tier := fs.String("tier", "quick", "quick|thorough")
	only := fs.String("harness", "", "regexp restricting harness names")
	out := fs.String("evidence", "", "evidence file to write")
	kfPath := fs.String("findings", "/verif/known_findings.json", "known findings file")
	replayDir := fs.String("replays", "/verif/replays", "directory for replay files")
	timeout := fs.Int("timeout", 0, "per-obligation solver timeout in seconds (default: 20 quick, 120 thorough)")
	verbose := fs.Bool("v", false, "verbose")
	cpuprof := fs.String("cpuprofile", "", "write a CPU profile of the run (development aid)")
	jobs := fs.Int("j", 8, "parallel solver races")
	fs.Parse(args)
	if *cpuprof != "" {
		if f, err := os.Create(*cpuprof); err == nil {
			pprof.StartCPUProfile(f)
			defer pprof.StopCPUProfile()
		}
	}
	t0 := time.Now()
	seed := 0
	if s := os.Getenv("VERIF_SEED"); s != "" {
		fmt.Sscan(s, &seed)
	}
	if *timeout == 0 {
		*timeout = 20
		if *tier == "thorough" {
			*timeout = 120
		}
	}
	need := 1
	if *tier == "thorough" {
		need = 2
	}
	w, err := engine.Load(*repo, "verif")
	if err != nil {
		fmt.Fprintln(os.Stderr, "govc: cannot load", *repo, ":", err)
		// a tree that does not build cannot be judged: report as engine error
		fmt.Printf("ERROR property=%s load failed\n", *prop)
		return 2
	}
	loadSec := time.Since(t0).Seconds()
	var re *regexp.Regexp
	if *only != "" {
		re = regexp.MustCompile(*only)
	}
	var hs []*engine.Harness
	for _, h := range w.Harnesses {
		if *prop != "" && !contains(h.Props, *prop) {
			continue
		}
		if re != nil && !re.MatchString(h.Name) {
			continue
		}
		hs = append(hs, h)
	}
	if len(hs) == 0 {
		fmt.Printf("ERROR property=%s no harness selected (vacuous check)\n", *prop)
		return 2
	}
	tmp, err := os.MkdirTemp("", "govc-")
	if err != nil {
		fmt.Fprintln(os.Stderr, err)
		return 2
	}
	if os.Getenv("GOVC_KEEP") == "" {
		defer os.RemoveAll(tmp)
	} else {
		fmt.Fprintln(os.Stderr, "keeping", tmp)
	}

	w.TmpDir = tmp
	// generate (parallel, one engine per harness), prepare, then discharge
	results := make([]*engine.HarnessResult, len(hs))
	var wg sync.WaitGroup
	sem := make(chan struct{}, 16)
	for i, h := range hs {
		wg.Add(1)
		go func(i int, h *engine.Harness) {
			defer wg.Done()
			sem <- struct{}{}
			defer func() { <-sem }()
			r := w.Generate(h)
			r.PrepareAll(300)
			results[i] = r
		}(i, h)
	}
	wg.Wait()
	genSec := time.Since(t0).Seconds() - loadSec
	solvers := smt.DefaultSolvers(*timeout)
	var all []*engine.Obligation
	for _, r := range results {
		all = append(all, r.Obls...)
	}
	sem2 := make(chan struct{}, *jobs)
	// automatic safety obligations are first tried in bundles (the Or of the BundleSafety terms is built sequentially per engine)
	var bundles []*engine.Bundle
	for _, r := range results {
		bundles = append(bundles, engine.BundleSafety(r.Obls, 24)...)
	}
	for _, b := range bundles {
		wg.Add(1)
		go func(b *engine.Bundle) {
			defer wg.Done()
			sem2 <- struct{}{}
			defer func() { <-sem2 }()
			b.Discharge(solvers, tmp, 10)
		}(b)
	}
	wg.Wait()
	for _, o := range all {
		wg.Add(1)
		go func(o *engine.Obligation) {
			defer wg.Done()
			sem2 <- struct{}{}
			defer func() { <-sem2 }()
			o.Discharge(solvers, tmp, *timeout, need)
			if o.Status == "undecided" && need == 2 {
				// thorough: accept a single definitive answer but record it
				o.Discharge2(solvers, tmp, *timeout)
			}
		}(o)
	}
	wg.Wait()
	// second chance for time-outs: an obligation left undecided while all cores were busy is retried alone, with three
	// times the budget (a time-out is a property of the machine's load, not of the code; "failed" answers are final)
	for _, o := range all {
		if o.Status == "undecided" {
			o.Retried = true
			if !o.RetryPrepare(600) {
				continue
			}
			if o.Status == "discharged" || o.Status == "vacuous" {
				continue // settled by the simplifier while preparing
			}
			o.Status = ""
			o.Discharge(smt.DefaultSolvers(*timeout*3), tmp, *timeout*3, 1)
			if o.Status == "discharged" || o.Status == "covered" {
				o.Solver += " (retried alone)"
			}
		}
	}

	// known findings
	var kf findingsFile
	if b, err := os.ReadFile(*kfPath); err == nil {
		if err := json.Unmarshal(b, &kf); err != nil {
			fmt.Fprintln(os.Stderr, "govc: bad findings file:", err)
			return 2
		}
	}
	matchFinding := func(name string) *finding {
		base := name
		if i := strings.Index(base, "@"); i >= 0 {
			base = base[:i]
		}
		for i := range kf.Findings {
			f := &kf.Findings[i]
			if *prop != "" && !contains(f.Properties, *prop) {
				continue
			}
			for _, o := range f.Obligations {
				if o == base || o == name {
					return f
				}
			}
		}
		return nil
	}

	type oblEv struct {
		Name    string  `json:"name"`
		Kind    string  `json:"kind"`
		Status  string  `json:"status"`
		Solver  string  `json:"solver,omitempty"`
		Seconds float64 `json:"seconds"`
		Size    int     `json:"smt_nodes"`
		Pos     string  `json:"pos,omitempty"`
	}
	var evObls []oblEv
	nObl, nDis, nCover, nKnown, nViol := 0, 0, 0, 0, 0
	solverSec := 0.0
	bySolver := map[string]int{}
	trusted := map[string]bool{}
	var fnsUnder []string
	var boundedNotes []string
	realSet := map[string]bool{}
	var samples []interface{}
	var knownLines, violLines []string
	seenKF := map[string]bool{}
	os.MkdirAll(filepath.Join(*replayDir, *prop), 0o755)
	for _, r := range results {
		h := r.Harness
		fnsUnder = append(fnsUnder, h.Name+targetSuffix(h))
		if h.Bounded != "" {
			boundedNotes = append(boundedNotes, h.Name+": bounded ("+h.Bounded+") - a bounded check, not counted as a proof for inputs beyond the bound")
		}
		for _, f := range r.RealFns {
			realSet[f] = true
		}
		for _, t := range r.Trusted {
			trusted[t] = true
		}
		if *verbose {
			for _, n := range r.Notes {
				fmt.Printf("  note %s: %s\n", h.Name, n)
			}
			fmt.Printf("  gen %s: %.1fs steps=%d reads=%d\n", h.Name, r.ExecSec, r.Steps, r.Reads)
		}
		if r.Err != "" {
			// the engine could not process the harness: undecided, never a pass
			name := h.Name + "#engine"
			if f := matchFinding(name); f != nil {
				if !seenKF[f.ID] {
					knownLines = append(knownLines, fmt.Sprintf("KNOWN-FINDING: property=%s %s: %s", *prop, f.ID, f.What))
					seenKF[f.ID] = true
				}
				nKnown++
				continue
			}
			path := writeReplay(*replayDir, *prop, name, "engine could not process harness (outside the accepted subset or internal error):\n"+r.Err, nil)
			violLines = append(violLines, fmt.Sprintf("VIOLATION property=%s replay=%s obligation=%s undecided: %s no-failing-input-found", *prop, path, name, firstLine(r.Err)))
			nViol++
			nObl++
			evObls = append(evObls, oblEv{Name: name, Kind: "engine", Status: "error"})
			continue
		}
		for _, o := range r.Obls {
			ev := oblEv{Name: o.Name, Kind: string(o.Kind), Status: o.Status, Solver: o.Solver, Seconds: round3(o.Seconds), Size: o.Size, Pos: o.Pos}
			solverSec += o.Seconds
			if *verbose {
				fmt.Printf("  %-12s %-90s %s %.2fs n=%d %v\n", o.Status, o.Name, o.Solver, o.Seconds, o.Size, o.Others)
			}
			if o.Kind == engine.KindCover {
				nCover++
				harnessFailed := false
				anyCovered := false
				for _, x := range r.Obls {
					if x.Status == "failed" {
						harnessFailed = true
					}
					if x.Kind == engine.KindCover && x.Status == "covered" {
						anyCovered = true
					}
				}
				if !strings.HasSuffix(o.Name, "#cover:end") {
					nCover-- // one vacuity guard per harness: it holds if any end state is reachable
					evObls = append(evObls, ev)
					continue
				}
				if !anyCovered && !harnessFailed {
					path := writeReplay(*replayDir, *prop, o.Name, "vacuity guard failed: "+o.Msg+" status="+o.Status, o)
					violLines = append(violLines, fmt.Sprintf("VIOLATION property=%s replay=%s obligation=%s vacuous-or-undecided-cover no-failing-input-found", *prop, path, o.Name))
					nViol++
				}
				evObls = append(evObls, ev)
				continue
			}
			if f := matchFinding(o.Name); f != nil {
				// excused obligation: reported separately, not counted as discharged
				if o.Status != "discharged" {
					if !seenKF[f.ID] {
						knownLines = append(knownLines, fmt.Sprintf("KNOWN-FINDING: property=%s %s: %s [obligation %s: %s]", *prop, f.ID, f.What, o.Name, o.Status))
						seenKF[f.ID] = true
					}
					nKnown++
				} else {
					fmt.Printf("NOTE: obligation %s listed under finding %s now discharges\n", o.Name, f.ID)
				}
				ev.Status = "known-finding:" + f.ID + ":" + o.Status
				evObls = append(evObls, ev)
				continue
			}
			nObl++
			evObls = append(evObls, ev)
			switch o.Status {
			case "discharged":
				nDis++
				bySolver[o.Solver]++
				if len(samples) < 4 && o.Kind != engine.KindSafety {
					samples = append(samples, map[string]interface{}{"obligation": o.Name, "kind": o.Kind, "pos": o.Pos, "what": o.Msg, "smt_nodes": o.Size, "solver": o.Solver, "seconds": round3(o.Seconds)})
				}
			case "failed":
				path := writeReplay(*replayDir, *prop, o.Name, "", o)
				suffix := " no-failing-input-found"
				if replayed, note := engine.TryReplay(w, r, o, path); replayed {
					suffix = ""
					_ = note
				}
				violLines = append(violLines, fmt.Sprintf("VIOLATION property=%s replay=%s obligation=%s (%s at %s)%s", *prop, path, o.Name, o.Msg, o.Pos, suffix))
				nViol++
			default:
				path := writeReplay(*replayDir, *prop, o.Name, "", o)
				violLines = append(violLines, fmt.Sprintf("VIOLATION property=%s replay=%s obligation=%s undecided (%s at %s) no-failing-input-found", *prop, path, o.Name, o.Msg, o.Pos))
				nViol++
			}
		}
	}
	for _, l := range knownLines {
		fmt.Println(l)
	}
	// one line per (harness, label): the same clause reached along several paths is reported once
	seenBase := map[string]int{}
	var outLines []string
	for _, l := range violLines {
		base := l
		if i := strings.Index(l, "obligation="); i >= 0 {
			rest := l[i+len("obligation="):]
			name := rest
			if j := strings.IndexAny(rest, " "); j >= 0 {
				name = rest[:j]
			}
			if k := strings.Index(name, "@"); k >= 0 {
				name = name[:k]
			}
			if k := strings.Index(name, "#safety:"); k >= 0 {
				// automatic safety obligations are grouped by source position
				if p := strings.Index(l, " at "); p >= 0 {
					name = name[:k] + "#safety@" + strings.Fields(l[p+4:])[0]
				}
			}
			base = name
		}
		seenBase[base]++
		if seenBase[base] == 1 {
			outLines = append(outLines, l)
		}
	}
	for _, l := range outLines {
		fmt.Println(l)
	}
	wall := time.Since(t0).Seconds()
	fmt.Printf("govc: property=%s tier=%s harnesses=%d obligations=%d discharged=%d covers=%d known-findings=%d violations=%d load=%.1fs gen=%.1fs wall=%.1fs\n",
		*prop, *tier, len(hs), nObl, nDis, nCover, nKnown, nViol, loadSec, genSec, wall)

	if *out != "" {
		var tb []string
		for t := range trusted {
			tb = append(tb, t)
		}
		sort.Strings(tb)
		sort.Strings(fnsUnder)
		if len(samples) == 0 {
			for _, ev := range evObls {
				samples = append(samples, ev)
				if len(samples) >= 3 {
					break
				}
			}
		}
		ev := map[string]interface{}{
			"property_id": *prop,
			"tier":        *tier,
			"seed":        seed,
			"level":       "proof",
			"wall_s":      round3(wall),
			"violations":  nViol,
			"coverage": map[string]interface{}{
				"obligations":               nObl,
				"discharged":                nDis,
				"checker_cmd":               "govc check -prop " + *prop + " -tier " + *tier + " (go/ssa weakest-precondition style symbolic execution of /repo working tree with -tags verif; z3 5.1.0 | z3 4.8.12 | cvc5 1.0 portfolio)",
				"trusted_base":              tb,
				"functions_under_contract":  fnsUnder,
				"real_functions_executed":   sortedKeys(realSet),
				"bounded_checks":            boundedNotes,
				"harnesses":                 len(hs),
				"vacuity_covers":            nCover,
				"known_finding_obligations": nKnown,
				"discharged_by_solver":      bySolver,
				"solver_seconds":            round3(solverSec),
				"load_seconds":              round3(loadSec),
				"generation_seconds":        round3(genSec),
				"integer_semantics":         "bit-vectors of exact Go width (int/uint = 64 bit); floats as bit patterns with uninterpreted arithmetic",
				"obligation_list":           evObls,
				"samples":                   samples,
			},
			"assumptions": tb,
		}
		b, _ := json.MarshalIndent(ev, "", " ")
		os.MkdirAll(filepath.Dir(*out), 0o755)
		if err := os.WriteFile(*out, b, 0o644); err != nil {
			fmt.Fprintln(os.Stderr, err)
			return 2
		}
	}
	if nViol > 0 {
		return 1
	}
	return 0
}

func targetSuffix(h *engine.Harness) string {
	if h.Target != "" {
		return " (contract of " + h.Target + ")"
	}
	return ""
}

func firstLine(s string) string {
	if i := strings.Index(s, "\n"); i >= 0 {
		return s[:i]
	}
	return s
}

func round3(f float64) float64 { return float64(int(f*1000+0.5)) / 1000 }

func contains(l []string, s string) bool {
	for _, x := range l {
		if x == s {
			return true
		}
	}
	return false
}

func writeReplay(dir, prop, name, text string, o *engine.Obligation) string {
	path := filepath.Join(dir, prop, smt.Sanitize(name)+".replay.txt")
	var sb strings.Builder
	fmt.Fprintf(&sb, "obligation: %s\n", name)
	if o != nil {
		fmt.Fprintf(&sb, "kind: %s\nposition: %s\nwhat: %s\nstatus: %s\nsolver: %s (%.2fs) others=%v\n", o.Kind, o.Pos, o.Msg, o.Status, o.Solver, o.Seconds, o.Others)
		if len(o.Model) > 0 {
			sb.WriteString("model (harness inputs):\n")
			keys := make([]string, 0, len(o.Model))
			for k := range o.Model {
				keys = append(keys, k)
			}
			sort.Strings(keys)
			for _, k := range keys {
				fmt.Fprintf(&sb, "  %s = %s\n", k, o.Model[k])
			}
		}
		fmt.Fprintf(&sb, "solver output:\n%s\n", truncate(o.Output, 4000))
		smtPath := filepath.Join(dir, prop, smt.Sanitize(name)+".smt2")
		os.WriteFile(smtPath, []byte(o.SMT()), 0o644)
		fmt.Fprintf(&sb, "smt query: %s\n", smtPath)
	}
	if text != "" {
		sb.WriteString(text + "\n")
	}
	os.MkdirAll(filepath.Dir(path), 0o755)
	os.WriteFile(path, []byte(sb.String()), 0o644)
	return path
}

func truncate(s string, n int) string {
	if len(s) > n {
		return s[:n] + "…"
	}
	return s
}

func init() {
	// "govc funcs <regexp>" lists SSA function names with their captured variables (to address anonymous functions)
	extraCommands["funcs"] = func(args []string) int {
		repo := "/repo"
		if len(args) > 1 {
			repo = args[1]
		}
		w, err := engine.Load(repo, "verif")
		if err != nil {
			fmt.Fprintln(os.Stderr, err)
			return 2
		}
		re := regexp.MustCompile(args[0])
		for _, n := range w.FuncNames() {
			if re.MatchString(n) {
				fn := w.FuncByName(n)
				var fv []string
				for _, v := range fn.FreeVars {
					fv = append(fv, v.Name()+" "+v.Type().String())
				}
				fmt.Printf("%s  free=[%s] sig=%s\n", n, strings.Join(fv, "; "), fn.Signature)
			}
		}
		return 0
	}
}

func sortedKeys(m map[string]bool) []string {
	out := make([]string, 0, len(m))
	for k := range m {
		out = append(out, k)
	}
	sort.Strings(out)
	return out
}
