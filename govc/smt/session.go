package smt

import (
	"bufio"
	"fmt"
	"io"
	"os"
	"os/exec"
	"strings"
)

// Session is a persistent incremental z3 process used for the many small feasibility questions asked during
// symbolic execution. Every non-leaf term is defined once (define-fun) and then referred to by name.
type Session struct {
	c       *Ctx
	cmd     *exec.Cmd
	in      io.WriteCloser
	out     *bufio.Reader
	defined map[int]bool
	decl    map[string]bool
	dead    bool
	Calls   int
}

func (c *Ctx) NewSession(timeoutMs int) *Session {
	path, err := exec.LookPath("z3-new")
	if err != nil {
		path, err = exec.LookPath("z3")
		if err != nil {
			return nil
		}
	}
	cmd := exec.Command(path, "-in")
	in, err := cmd.StdinPipe()
	if err != nil {
		return nil
	}
	outp, err := cmd.StdoutPipe()
	if err != nil {
		return nil
	}
	cmd.Stderr = cmd.Stdout
	if err := cmd.Start(); err != nil {
		return nil
	}
	s := &Session{c: c, cmd: cmd, in: in, out: bufio.NewReader(outp), defined: map[int]bool{}, decl: map[string]bool{}}
	fmt.Fprintf(in, "(set-option :timeout %d)\n", timeoutMs)
	return s
}

func (s *Session) Close() {
	if s == nil || s.cmd == nil {
		return
	}
	s.in.Close()
	s.cmd.Process.Kill()
	s.cmd.Wait()
	s.cmd = nil
}

// define emits declarations/definitions needed for t and returns the name to use for it.
func (s *Session) define(sb *strings.Builder, t *Term) string {
	switch t.Op {
	case OVar:
		if !s.decl[t.Name] {
			s.decl[t.Name] = true
			fmt.Fprintf(sb, "(declare-fun %s () %s)\n", quoteSym(t.Name), t.Sort)
		}
		return quoteSym(t.Name)
	case OConst:
		return bvLit(t.Val, t.Sort.Width)
	case OTrue:
		return "true"
	case OFalse:
		return "false"
	}
	name := fmt.Sprintf("t!%d", t.ID)
	if s.defined[t.ID] {
		return name
	}
	if t.Op == OApp && !s.decl[t.Name] {
		s.decl[t.Name] = true
		f := s.c.Funcs[t.Name]
		var as []string
		for _, a := range f.Args {
			as = append(as, a.String())
		}
		fmt.Fprintf(sb, "(declare-fun %s (%s) %s)\n", quoteSym(t.Name), strings.Join(as, " "), f.Res)
	}
	parts := make([]string, 0, len(t.Args)+1)
	parts = append(parts, headOf(t))
	for _, a := range t.Args {
		parts = append(parts, s.define(sb, a))
	}
	fmt.Fprintf(sb, "(define-fun %s () %s (%s))\n", name, t.Sort, strings.Join(parts, " "))
	s.defined[t.ID] = true
	return name
}

// Check asks whether the conjunction of asserts is satisfiable. Quantified assertions are skipped (weakening).
func (s *Session) Check(asserts []*Term) Status {
	if s == nil || s.dead {
		return Unknown
	}
	var sb strings.Builder
	var names []string
	for _, a := range asserts {
		if s.c.HasQuantifier(a) {
			continue
		}
		names = append(names, s.define(&sb, a))
	}
	sb.WriteString("(push 1)\n")
	for _, n := range names {
		fmt.Fprintf(&sb, "(assert %s)\n", n)
	}
	sb.WriteString("(check-sat)\n(pop 1)\n")
	s.Calls++
	if lf := os.Getenv("GOVC_SESSION_LOG"); lf != "" {
		if f, err := os.OpenFile(lf, os.O_APPEND|os.O_CREATE|os.O_WRONLY, 0o644); err == nil {
			fmt.Fprintf(f, "; ---- check %d\n%s", s.Calls, sb.String())
			f.Close()
		}
	}
	if _, err := io.WriteString(s.in, sb.String()); err != nil {
		s.dead = true
		return Unknown
	}
	for {
		line, err := s.out.ReadString('\n')
		if err != nil {
			s.dead = true
			return Unknown
		}
		line = strings.TrimSpace(line)
		switch line {
		case "sat":
			return Sat
		case "unsat":
			return Unsat
		case "unknown", "timeout":
			return Unknown
		}
		if strings.HasPrefix(line, "(error") {
			s.dead = true
			return Unknown
		}
	}
}
