// Package smt: hash-consed bit-vector terms with construction-time simplification.
package smt

import (
	"fmt"
	"sort"
	"strings"
	"time"
)

type SortKind int

const (
	KBool SortKind = iota
	KBV
)

type Sort struct {
	Kind  SortKind
	Width int
}

var BoolSort = Sort{KBool, 0}

func BV(w int) Sort { return Sort{KBV, w} }

func (s Sort) String() string {
	if s.Kind == KBool {
		return "Bool"
	}
	return fmt.Sprintf("(_ BitVec %d)", s.Width)
}

type Op int

const (
	OVar Op = iota
	OConst
	OTrue
	OFalse
	ONot
	OAnd
	OOr
	OIte
	OEq
	OAdd
	OSub
	OMul
	OUDiv
	OURem
	OSDiv
	OSRem
	OBVAnd
	OBVOr
	OBVXor
	OBVNot
	ONeg
	OShl
	OLshr
	OAshr
	OUlt
	OUle
	OSlt
	OSle
	OExtract
	OConcat
	OZeroExt
	OSignExt
	OApp
	OForall
	OBound
)

var opNames = map[Op]string{
	ONot: "not", OAnd: "and", OOr: "or", OIte: "ite", OEq: "=", OAdd: "bvadd", OSub: "bvsub", OMul: "bvmul",
	OUDiv: "bvudiv", OURem: "bvurem", OSDiv: "bvsdiv", OSRem: "bvsrem", OBVAnd: "bvand", OBVOr: "bvor",
	OBVXor: "bvxor", OBVNot: "bvnot", ONeg: "bvneg", OShl: "bvshl", OLshr: "bvlshr", OAshr: "bvashr",
	OUlt: "bvult", OUle: "bvule", OSlt: "bvslt", OSle: "bvsle", OConcat: "concat",
}

// Term is an immutable hash-consed term.
type Term struct {
	ID    int
	Op    Op
	Sort  Sort
	Args  []*Term
	Val   uint64  // OConst
	Name  string  // OVar, OApp (function name), OBound
	P0    int     // extract hi / ext amount
	P1    int     // extract lo
	Stamp int     // creation stamp of the newest symbol inside (vars, UFs)
	Bound []*Term // OForall: bound variables
}

// Func is an uninterpreted function declaration.
type Func struct {
	Name  string
	Args  []Sort
	Res   Sort
	Stamp int
}

// Ctx owns all terms.
type Ctx struct {
	table     map[string]*Term
	nextID    int
	Funcs     map[string]*Func
	Vars      map[string]*Term
	stamp     int
	linMemo   map[int]*linForm
	fresh     int
	liftDepth int
	eqDepth   int
	eqMemo    map[[2]int]*Term
	quantMemo map[int]bool
	nwMemo    map[[3]int]*Term
	Deadline  time.Time
	mkCount   int
	// Small, when set, reports that a term's value as a signed integer is known to be of small magnitude
	// (|t| < 2^56), so that sums and differences of a few such terms cannot wrap.
	Small func(t *Term) bool
	// NonNeg, when set, reports that a 64-bit term is a non-negative quantity of small magnitude (< 2^50).
	NonNeg func(t *Term) bool
	// Distinct, when set, decides syntactically that two bit-vector terms can never be equal.
	Distinct func(a, b *Term) bool
}

func NewCtx() *Ctx {
	return &Ctx{table: map[string]*Term{}, Funcs: map[string]*Func{}, Vars: map[string]*Term{}, linMemo: map[int]*linForm{}, eqMemo: map[[2]int]*Term{}, quantMemo: map[int]bool{}, nwMemo: map[[3]int]*Term{}}
}

// NextStamp returns a new monotonically increasing stamp (shared by symbols and allocations).
func (c *Ctx) NextStamp() int { c.stamp++; return c.stamp }
func (c *Ctx) CurStamp() int  { return c.stamp }

func mask(w int) uint64 {
	if w >= 64 {
		return ^uint64(0)
	}
	return (uint64(1) << uint(w)) - 1
}

// BudgetExceeded is raised (as a panic) when term construction runs past the context's deadline.
type BudgetExceeded struct{}

func (BudgetExceeded) Error() string { return "unsupported: term construction time budget exceeded" }

func (c *Ctx) mk(op Op, sort Sort, args []*Term, val uint64, name string, p0, p1 int) *Term {
	c.mkCount++
	if c.mkCount&0xffff == 0 && !c.Deadline.IsZero() && time.Now().After(c.Deadline) {
		panic(BudgetExceeded{})
	}
	var sb strings.Builder
	fmt.Fprintf(&sb, "%d|%d|%d|%d|%s|%d|%d", op, sort.Kind, sort.Width, val, name, p0, p1)
	for _, a := range args {
		fmt.Fprintf(&sb, "|%d", a.ID)
	}
	k := sb.String()
	if t, ok := c.table[k]; ok {
		return t
	}
	t := &Term{ID: c.nextID, Op: op, Sort: sort, Args: args, Val: val, Name: name, P0: p0, P1: p1}
	c.nextID++
	for _, a := range args {
		if a.Stamp > t.Stamp {
			t.Stamp = a.Stamp
		}
	}
	c.table[k] = t
	return t
}

func (c *Ctx) True() *Term  { return c.mk(OTrue, BoolSort, nil, 0, "", 0, 0) }
func (c *Ctx) False() *Term { return c.mk(OFalse, BoolSort, nil, 0, "", 0, 0) }
func (c *Ctx) Bool(b bool) *Term {
	if b {
		return c.True()
	}
	return c.False()
}

func (c *Ctx) Const(v uint64, w int) *Term {
	return c.mk(OConst, BV(w), nil, v&mask(w), "", 0, 0)
}

// Var declares (or returns) a named variable.
func (c *Ctx) Var(name string, s Sort) *Term {
	if t, ok := c.Vars[name]; ok {
		if t.Sort != s {
			panic("smt: var redeclared with different sort: " + name)
		}
		return t
	}
	t := c.mk(OVar, s, nil, 0, name, 0, 0)
	t.Stamp = c.NextStamp()
	c.Vars[name] = t
	return t
}

// FreshVar makes a new variable with a unique suffix.
func (c *Ctx) FreshVar(prefix string, s Sort) *Term {
	c.fresh++
	return c.Var(fmt.Sprintf("%s!%d", sanitize(prefix), c.fresh), s)
}

func sanitize(s string) string {
	var sb strings.Builder
	for _, r := range s {
		switch {
		case r >= 'a' && r <= 'z', r >= 'A' && r <= 'Z', r >= '0' && r <= '9', r == '_', r == '.', r == '!', r == '$', r == '#':
			sb.WriteRune(r)
		default:
			sb.WriteByte('_')
		}
	}
	return sb.String()
}

func Sanitize(s string) string { return sanitize(s) }

// Bound makes a bound variable (for quantifiers).
func (c *Ctx) BoundVar(prefix string, s Sort) *Term {
	c.fresh++
	return c.mk(OBound, s, nil, 0, fmt.Sprintf("%s!b%d", sanitize(prefix), c.fresh), 0, 0)
}

// DeclFunc declares an uninterpreted function.
func (c *Ctx) DeclFunc(name string, args []Sort, res Sort) *Func {
	name = sanitize(name)
	if f, ok := c.Funcs[name]; ok {
		return f
	}
	f := &Func{Name: name, Args: args, Res: res, Stamp: c.NextStamp()}
	c.Funcs[name] = f
	return f
}

// DeclFuncInitial declares an uninterpreted function that describes the state before execution began (stamp 0):
// its values are older than every allocation made during execution, whenever it is first mentioned.
func (c *Ctx) DeclFuncInitial(name string, args []Sort, res Sort) *Func {
	name = sanitize(name)
	if f, ok := c.Funcs[name]; ok {
		return f
	}
	f := &Func{Name: name, Args: args, Res: res, Stamp: 0}
	c.Funcs[name] = f
	return f
}

// FreshFunc declares a new UF with a unique name.
func (c *Ctx) FreshFunc(prefix string, args []Sort, res Sort) *Func {
	c.fresh++
	return c.DeclFunc(fmt.Sprintf("%s!%d", prefix, c.fresh), args, res)
}

func (c *Ctx) App(f *Func, args ...*Term) *Term {
	if len(args) != len(f.Args) {
		panic("smt: arity mismatch for " + f.Name)
	}
	for i, a := range args {
		if a.Sort != f.Args[i] {
			panic(fmt.Sprintf("smt: sort mismatch arg %d of %s: %v vs %v", i, f.Name, a.Sort, f.Args[i]))
		}
	}
	if len(args) == 0 {
		t := c.mk(OVar, f.Res, nil, 0, f.Name, 0, 0)
		if t.Stamp == 0 {
			t.Stamp = f.Stamp
			c.Vars[f.Name] = t
		}
		return t
	}
	t := c.mk(OApp, f.Res, args, 0, f.Name, 0, 0)
	if f.Stamp > t.Stamp {
		t.Stamp = f.Stamp
	}
	return t
}

func (t *Term) IsConst() bool { return t.Op == OConst }

// HasQuantifier reports whether a quantifier occurs in t.
func (c *Ctx) HasQuantifier(t *Term) bool {
	if v, ok := c.quantMemo[t.ID]; ok {
		return v
	}
	r := t.Op == OForall
	if !r {
		for _, a := range t.Args {
			if c.HasQuantifier(a) {
				r = true
				break
			}
		}
	}
	c.quantMemo[t.ID] = r
	return r
}
func (t *Term) IsTrue() bool  { return t.Op == OTrue }
func (t *Term) IsFalse() bool { return t.Op == OFalse }

// ---------------------------------------------------------------- booleans

func (c *Ctx) Not(a *Term) *Term {
	switch a.Op {
	case OTrue:
		return c.False()
	case OFalse:
		return c.True()
	case ONot:
		return a.Args[0]
	}
	return c.mk(ONot, BoolSort, []*Term{a}, 0, "", 0, 0)
}

func (c *Ctx) And(as ...*Term) *Term {
	var out []*Term
	seen := map[int]bool{}
	var add func(t *Term) bool
	add = func(t *Term) bool {
		switch t.Op {
		case OTrue:
			return true
		case OFalse:
			return false
		case OAnd:
			for _, x := range t.Args {
				if !add(x) {
					return false
				}
			}
			return true
		}
		if seen[t.ID] {
			return true
		}
		seen[t.ID] = true
		out = append(out, t)
		return true
	}
	for _, a := range as {
		if !add(a) {
			return c.False()
		}
	}
	for _, t := range out {
		if t.Op == ONot && seen[t.Args[0].ID] {
			return c.False()
		}
	}
	switch len(out) {
	case 0:
		return c.True()
	case 1:
		return out[0]
	}
	return c.mk(OAnd, BoolSort, out, 0, "", 0, 0)
}

func (c *Ctx) Or(as ...*Term) *Term {
	var out []*Term
	seen := map[int]bool{}
	var add func(t *Term) bool
	add = func(t *Term) bool {
		switch t.Op {
		case OFalse:
			return true
		case OTrue:
			return false
		case OOr:
			for _, x := range t.Args {
				if !add(x) {
					return false
				}
			}
			return true
		}
		if seen[t.ID] {
			return true
		}
		seen[t.ID] = true
		out = append(out, t)
		return true
	}
	for _, a := range as {
		if !add(a) {
			return c.True()
		}
	}
	for _, t := range out {
		if t.Op == ONot && seen[t.Args[0].ID] {
			return c.True()
		}
	}
	switch len(out) {
	case 0:
		return c.False()
	case 1:
		return out[0]
	}
	return c.mk(OOr, BoolSort, out, 0, "", 0, 0)
}

func (c *Ctx) Implies(a, b *Term) *Term { return c.Or(c.Not(a), b) }

func (c *Ctx) Ite(cond, a, b *Term) *Term {
	if a.Sort != b.Sort {
		panic(fmt.Sprintf("smt: ite sort mismatch %v %v", a.Sort, b.Sort))
	}
	switch cond.Op {
	case OTrue:
		return a
	case OFalse:
		return b
	case ONot:
		return c.Ite(cond.Args[0], b, a)
	}
	if a == b {
		return a
	}
	if a.Sort.Kind == KBool {
		if a.IsTrue() && b.IsFalse() {
			return cond
		}
		if a.IsFalse() && b.IsTrue() {
			return c.Not(cond)
		}
		if a.IsTrue() {
			return c.Or(cond, b)
		}
		if a.IsFalse() {
			return c.And(c.Not(cond), b)
		}
		if b.IsTrue() {
			return c.Or(c.Not(cond), a)
		}
		if b.IsFalse() {
			return c.And(cond, a)
		}
	}
	// ite(c, x, ite(c, y, z)) = ite(c, x, z)
	if b.Op == OIte && b.Args[0] == cond {
		return c.Ite(cond, a, b.Args[2])
	}
	if a.Op == OIte && a.Args[0] == cond {
		return c.Ite(cond, a.Args[1], b)
	}
	return c.mk(OIte, a.Sort, []*Term{cond, a, b}, 0, "", 0, 0)
}

func (c *Ctx) Eq(a, b *Term) *Term {
	if a == b {
		return c.True()
	}
	key := [2]int{a.ID, b.ID}
	if a.ID > b.ID {
		key = [2]int{b.ID, a.ID}
	}
	if r, ok := c.eqMemo[key]; ok {
		return r
	}
	c.eqDepth++
	r := c.eq(a, b)
	c.eqDepth--
	c.eqMemo[key] = r
	return r
}

func (c *Ctx) eq(a, b *Term) *Term {
	if a.Sort != b.Sort {
		panic(fmt.Sprintf("smt: eq sort mismatch %v %v (%s, %s)", a.Sort, b.Sort, c.Short(a), c.Short(b)))
	}
	if a == b {
		return c.True()
	}
	if a.Sort.Kind == KBool {
		if a.IsTrue() {
			return b
		}
		if b.IsTrue() {
			return a
		}
		if a.IsFalse() {
			return c.Not(b)
		}
		if b.IsFalse() {
			return c.Not(a)
		}
	} else {
		if a.IsConst() && b.IsConst() {
			return c.Bool(a.Val == b.Val)
		}
		if d, ok := c.DiffConst(a, b); ok {
			return c.Bool(d == 0)
		}
		if c.Distinct != nil && c.Distinct(a, b) {
			return c.False()
		}
		if a.IsConst() || b.IsConst() {
			x, k := a, b
			if a.IsConst() {
				x, k = b, a
			}
			if x.Op != OVar && x.Op != OApp {
				ones, zeros := c.knownBits(x, 6)
				if ones&^k.Val != 0 || zeros&k.Val != 0 {
					return c.False()
				}
			}
		}
		// lift equality through ite when a branch decides
		for _, p := range [][2]*Term{{a, b}, {b, a}} {
			x, y := p[0], p[1]
			if x.Op == OIte && c.eqDepth < 12 && (y.IsConst() || y.Op == OVar || y.Op == OApp || y.Op == OIte) {
				e1, e2 := c.Eq(x.Args[1], y), c.Eq(x.Args[2], y)
				if isBoolConst(e1) || isBoolConst(e2) {
					return c.Ite(x.Args[0], e1, e2)
				}
			}
		}
	}
	if a.ID > b.ID {
		a, b = b, a
	}
	return c.mk(OEq, BoolSort, []*Term{a, b}, 0, "", 0, 0)
}

func isBoolConst(t *Term) bool { return t.Op == OTrue || t.Op == OFalse }

func (c *Ctx) Ne(a, b *Term) *Term { return c.Not(c.Eq(a, b)) }

// ---------------------------------------------------------------- linear forms

type linForm struct {
	k     uint64
	atoms map[int]uint64 // term id -> coefficient
	terms map[int]*Term
}

func (c *Ctx) lin(t *Term) *linForm {
	if l, ok := c.linMemo[t.ID]; ok {
		return l
	}
	w := t.Sort.Width
	l := &linForm{atoms: map[int]uint64{}, terms: map[int]*Term{}}
	addScaled := func(o *linForm, s uint64) {
		l.k = (l.k + o.k*s) & mask(w)
		for id, co := range o.atoms {
			n := (l.atoms[id] + co*s) & mask(w)
			if n == 0 {
				delete(l.atoms, id)
				delete(l.terms, id)
			} else {
				l.atoms[id] = n
				l.terms[id] = o.terms[id]
			}
		}
	}
	switch t.Op {
	case OConst:
		l.k = t.Val
	case OAdd:
		for _, a := range t.Args {
			addScaled(c.lin(a), 1)
		}
	case OSub:
		addScaled(c.lin(t.Args[0]), 1)
		addScaled(c.lin(t.Args[1]), mask(w))
	case ONeg:
		addScaled(c.lin(t.Args[0]), mask(w))
	case OMul:
		if t.Args[0].IsConst() {
			addScaled(c.lin(t.Args[1]), t.Args[0].Val)
		} else if t.Args[1].IsConst() {
			addScaled(c.lin(t.Args[0]), t.Args[1].Val)
		} else {
			l.atoms[t.ID] = 1
			l.terms[t.ID] = t
		}
	default:
		l.atoms[t.ID] = 1
		l.terms[t.ID] = t
	}
	c.linMemo[t.ID] = l
	return l
}

// DiffConst reports a-b when it is a syntactic constant.
func (c *Ctx) DiffConst(a, b *Term) (int64, bool) {
	if a == b {
		return 0, true
	}
	if a.Sort.Kind != KBV || a.Sort != b.Sort {
		return 0, false
	}
	la, lb := c.lin(a), c.lin(b)
	if len(la.atoms) != len(lb.atoms) {
		return 0, false
	}
	for id, co := range la.atoms {
		if lb.atoms[id] != co {
			return 0, false
		}
	}
	w := a.Sort.Width
	d := (la.k - lb.k) & mask(w)
	// sign-extend
	if w < 64 && d&(uint64(1)<<uint(w-1)) != 0 {
		d |= ^mask(w)
	}
	return int64(d), true
}

func (c *Ctx) fromLin(l *linForm, w int) *Term {
	ids := make([]int, 0, len(l.atoms))
	for id := range l.atoms {
		ids = append(ids, id)
	}
	sort.Ints(ids)
	var parts []*Term
	for _, id := range ids {
		co := l.atoms[id]
		t := l.terms[id]
		if co == 1 {
			parts = append(parts, t)
		} else if co == mask(w) {
			parts = append(parts, c.mk(ONeg, t.Sort, []*Term{t}, 0, "", 0, 0))
		} else {
			parts = append(parts, c.mk(OMul, t.Sort, []*Term{c.Const(co, w), t}, 0, "", 0, 0))
		}
	}
	if l.k != 0 || len(parts) == 0 {
		parts = append(parts, c.Const(l.k, w))
	}
	if len(parts) == 1 {
		return parts[0]
	}
	return c.mk(OAdd, BV(w), parts, 0, "", 0, 0)
}

func (c *Ctx) normLin(t *Term) *Term {
	l := c.lin(t)
	r := c.fromLin(l, t.Sort.Width)
	if _, ok := c.linMemo[r.ID]; !ok {
		c.linMemo[r.ID] = l
	}
	return r
}

// ---------------------------------------------------------------- bit-vector ops

func (c *Ctx) chk2(a, b *Term, what string) {
	if a.Sort != b.Sort || a.Sort.Kind != KBV {
		panic(fmt.Sprintf("smt: %s sort mismatch %v %v", what, a.Sort, b.Sort))
	}
}

func (c *Ctx) Add(a, b *Term) *Term {
	c.chk2(a, b, "add")
	return c.normLin(c.mk(OAdd, a.Sort, []*Term{a, b}, 0, "", 0, 0))
}
func (c *Ctx) Sub(a, b *Term) *Term {
	c.chk2(a, b, "sub")
	return c.normLin(c.mk(OSub, a.Sort, []*Term{a, b}, 0, "", 0, 0))
}
func (c *Ctx) Neg(a *Term) *Term {
	return c.normLin(c.mk(ONeg, a.Sort, []*Term{a}, 0, "", 0, 0))
}
func (c *Ctx) AddC(a *Term, k int64) *Term { return c.Add(a, c.Const(uint64(k), a.Sort.Width)) }

func (c *Ctx) Mul(a, b *Term) *Term {
	c.chk2(a, b, "mul")
	w := a.Sort.Width
	if a.IsConst() && b.IsConst() {
		return c.Const(a.Val*b.Val, w)
	}
	if a.IsConst() || b.IsConst() {
		return c.normLin(c.mk(OMul, a.Sort, []*Term{a, b}, 0, "", 0, 0))
	}
	if a.ID > b.ID {
		a, b = b, a
	}
	return c.mk(OMul, a.Sort, []*Term{a, b}, 0, "", 0, 0)
}

func sext(v uint64, w int) int64 {
	if w < 64 && v&(uint64(1)<<uint(w-1)) != 0 {
		v |= ^mask(w)
	}
	return int64(v)
}

func (c *Ctx) binConst(op Op, a, b *Term) (*Term, bool) {
	if !a.IsConst() || !b.IsConst() {
		return nil, false
	}
	w := a.Sort.Width
	x, y := a.Val, b.Val
	switch op {
	case OUDiv:
		if y == 0 {
			return c.Const(mask(w), w), true
		}
		return c.Const(x/y, w), true
	case OURem:
		if y == 0 {
			return a, true
		}
		return c.Const(x%y, w), true
	case OSDiv:
		sx, sy := sext(x, w), sext(y, w)
		if sy == 0 {
			return nil, false
		}
		if sy == -1 {
			return c.Const(uint64(-sx), w), true
		}
		return c.Const(uint64(sx/sy), w), true
	case OSRem:
		sx, sy := sext(x, w), sext(y, w)
		if sy == 0 {
			return nil, false
		}
		if sy == -1 {
			return c.Const(0, w), true
		}
		return c.Const(uint64(sx%sy), w), true
	case OBVAnd:
		return c.Const(x&y, w), true
	case OBVOr:
		return c.Const(x|y, w), true
	case OBVXor:
		return c.Const(x^y, w), true
	case OShl:
		if y >= uint64(w) {
			return c.Const(0, w), true
		}
		return c.Const(x<<y, w), true
	case OLshr:
		if y >= uint64(w) {
			return c.Const(0, w), true
		}
		return c.Const(x>>y, w), true
	case OAshr:
		sx := sext(x, w)
		if y >= uint64(w) {
			y = uint64(w - 1)
		}
		return c.Const(uint64(sx>>y), w), true
	}
	return nil, false
}

// piece describes a term whose bits [dst, dst+width) are src[lo, lo+width) and whose other bits are zero.
type piece struct {
	src            *Term
	lo, width, dst int
}

func (c *Ctx) asPiece(t *Term) (piece, bool) {
	switch t.Op {
	case OExtract:
		return piece{t.Args[0], t.P1, t.P0 - t.P1 + 1, 0}, true
	case OZeroExt:
		if p, ok := c.asPiece(t.Args[0]); ok {
			return p, true
		}
		return piece{t.Args[0], 0, t.Args[0].Sort.Width, 0}, true
	case OShl:
		if t.Args[1].IsConst() {
			if p, ok := c.asPiece(t.Args[0]); ok {
				k := int(t.Args[1].Val)
				if p.dst+k+p.width <= t.Sort.Width {
					p.dst += k
					return p, true
				}
			}
		}
	case OBVOr:
		// an already joined pair
		if p, ok := c.asPiece(t.Args[0]); ok {
			if q, ok := c.asPiece(t.Args[1]); ok {
				if j, ok := joinTwo(p, q); ok {
					return j, true
				}
			}
		}
	}
	return piece{}, false
}

func joinTwo(p, q piece) (piece, bool) {
	if p.src != q.src {
		return piece{}, false
	}
	if q.lo == p.lo+p.width && q.dst == p.dst+p.width {
		return piece{p.src, p.lo, p.width + q.width, p.dst}, true
	}
	if p.lo == q.lo+q.width && p.dst == q.dst+q.width {
		return piece{p.src, q.lo, p.width + q.width, q.dst}, true
	}
	return piece{}, false
}

// joinPieces rebuilds (x[a:b] placed at d) | (x[b:c] placed at d+(b-a)) as one placed slice.
func (c *Ctx) joinPieces(a, b *Term, w int) (*Term, bool) {
	p, ok := c.asPiece(a)
	if !ok {
		return nil, false
	}
	q, ok := c.asPiece(b)
	if !ok {
		return nil, false
	}
	j, ok := joinTwo(p, q)
	if !ok {
		return nil, false
	}
	t := c.Extract(j.src, j.lo+j.width-1, j.lo)
	t = c.ZeroExt(t, w)
	if j.dst > 0 {
		t = c.mk(OShl, t.Sort, []*Term{t, c.Const(uint64(j.dst), w)}, 0, "", 0, 0)
	}
	return t, true
}

// constLeaves: t is a constant or a small ite tree whose leaves are all constants.
func (c *Ctx) constLeaves(t *Term, budget int) bool {
	if t.IsConst() || t.Op == OTrue || t.Op == OFalse {
		return true
	}
	if t.Op == OIte && budget > 0 {
		return c.constLeaves(t.Args[1], budget-1) && c.constLeaves(t.Args[2], budget-1)
	}
	return false
}

func (c *Ctx) Bin(op Op, a, b *Term) *Term {
	c.chk2(a, b, opNames[op])
	if r, ok := c.binConst(op, a, b); ok {
		return r
	}
	w := a.Sort.Width
	if a.Op == OIte && c.constLeaves(a, 8) && b.IsConst() || b.Op == OIte && c.constLeaves(b, 8) && a.IsConst() {
		if a.Op == OIte {
			return c.Ite(a.Args[0], c.Bin(op, a.Args[1], b), c.Bin(op, a.Args[2], b))
		}
		return c.Ite(b.Args[0], c.Bin(op, a, b.Args[1]), c.Bin(op, a, b.Args[2]))
	}
	// lift through an ite when the operation folds to constants on both sides
	if a.Op == OIte && b.IsConst() && c.liftDepth < 4 {
		c.liftDepth++
		x, y := c.Bin(op, a.Args[1], b), c.Bin(op, a.Args[2], b)
		c.liftDepth--
		if c.constLeaves(x, 8) && c.constLeaves(y, 8) {
			return c.Ite(a.Args[0], x, y)
		}
	}
	if (op == OBVAnd || op == OBVOr || op == OBVXor) && a.IsConst() {
		a, b = b, a // constants to the right
	}
	// known-bits rewrites with a constant right operand
	if b.IsConst() {
		k := b.Val
		switch op {
		case OBVAnd:
			switch a.Op {
			case OBVOr: // (x | k1) & k = (x & k) | (k1 & k)
				if a.Args[1].IsConst() {
					return c.Bin(OBVOr, c.Bin(OBVAnd, a.Args[0], b), c.Const(a.Args[1].Val&k, w))
				}
			case OShl: // (x << s) & k : drop when k has no bits at or above s
				if a.Args[1].IsConst() && a.Args[1].Val < 64 && k&^(mask(w)>>a.Args[1].Val<<a.Args[1].Val) == k && k>>a.Args[1].Val == 0 {
					return c.Const(0, w)
				}
			case OLshr: // (x >> s) & k where k covers all possibly-set bits
				if a.Args[1].IsConst() && a.Args[1].Val < uint64(w) && k&(mask(w)>>a.Args[1].Val) == mask(w)>>a.Args[1].Val {
					return a
				}
			}
		case OBVOr:
			if a.Op == OBVOr && a.Args[1].IsConst() { // (x | k1) | k
				return c.Bin(OBVOr, a.Args[0], c.Const(a.Args[1].Val|k, w))
			}
		case OLshr:
			if k < uint64(w) {
				switch a.Op {
				case OBVOr, OBVAnd:
					if a.Args[1].IsConst() { // (x op k1) >> s = (x >> s) op (k1 >> s)
						return c.Bin(a.Op, c.Bin(OLshr, a.Args[0], b), c.Const(a.Args[1].Val>>k, w))
					}
				case OZeroExt:
					iw := a.Args[0].Sort.Width
					if k >= uint64(iw) {
						return c.Const(0, w)
					}
					return c.ZeroExt(c.Bin(OLshr, a.Args[0], c.Const(k, iw)), w)
				case OLshr:
					if a.Args[1].IsConst() && a.Args[1].Val+k < uint64(w) {
						return c.Bin(OLshr, a.Args[0], c.Const(a.Args[1].Val+k, w))
					}
				}
			}
		case OShl:
			if k < uint64(w) && (a.Op == OBVOr || a.Op == OBVAnd) && a.Args[1].IsConst() {
				return c.Bin(a.Op, c.Bin(OShl, a.Args[0], b), c.Const(a.Args[1].Val<<k, w))
			}
		}
	}
	if a.IsConst() && (op == OShl || op == OLshr) && b.Op == OIte && c.constLeaves(b, 8) {
		return c.Ite(b.Args[0], c.Bin(op, a, b.Args[1]), c.Bin(op, a, b.Args[2]))
	}
	switch op {
	case OBVAnd:
		if a == b {
			return a
		}
		for _, p := range [][2]*Term{{a, b}, {b, a}} {
			if p[0].IsConst() {
				if p[0].Val == 0 {
					return p[0]
				}
				if p[0].Val == mask(w) {
					return p[1]
				}
			}
		}
		// (x & k1) & k2
		if b.IsConst() && a.Op == OBVAnd && a.Args[1].IsConst() {
			return c.Bin(OBVAnd, a.Args[0], c.Const(a.Args[1].Val&b.Val, w))
		}
		// zero_ext(x) & k : push inside
		if b.IsConst() && a.Op == OZeroExt {
			iw := a.Args[0].Sort.Width
			if b.Val&mask(iw) == mask(iw) {
				return a
			}
			return c.ZeroExt(c.Bin(OBVAnd, a.Args[0], c.Const(b.Val, iw)), w)
		}
	case OBVOr:
		if a == b {
			return a
		}
		for _, p := range [][2]*Term{{a, b}, {b, a}} {
			if p[0].IsConst() {
				if p[0].Val == 0 {
					return p[1]
				}
				if p[0].Val == mask(w) {
					return p[0]
				}
			}
		}
		if r, ok := c.joinPieces(a, b, w); ok {
			return r
		}
	case OBVXor:
		if a == b {
			return c.Const(0, w)
		}
		if a.IsConst() && a.Val == 0 {
			return b
		}
		if b.IsConst() && b.Val == 0 {
			return a
		}
	case OShl, OLshr, OAshr:
		if b.IsConst() && b.Val == 0 {
			return a
		}
		if op == OAshr && a.Op == OZeroExt {
			return c.Bin(OLshr, a, b)
		}
		if a.IsConst() && a.Val == 0 {
			return a
		}
		if b.IsConst() && b.Val >= uint64(w) && op != OAshr {
			return c.Const(0, w)
		}
	case OUDiv:
		if b.IsConst() && b.Val == 1 {
			return a
		}
	}
	if (op == OBVAnd || op == OBVOr || op == OBVXor) && a.IsConst() {
		a, b = b, a // constants to the right
	}
	return c.mk(op, a.Sort, []*Term{a, b}, 0, "", 0, 0)
}

func (c *Ctx) BVNot(a *Term) *Term {
	if a.IsConst() {
		return c.Const(^a.Val, a.Sort.Width)
	}
	if a.Op == OBVNot {
		return a.Args[0]
	}
	return c.mk(OBVNot, a.Sort, []*Term{a}, 0, "", 0, 0)
}

func (c *Ctx) Cmp(op Op, a, b *Term) *Term {
	c.chk2(a, b, opNames[op])
	w := a.Sort.Width
	if a.IsConst() && b.IsConst() {
		switch op {
		case OUlt:
			return c.Bool(a.Val < b.Val)
		case OUle:
			return c.Bool(a.Val <= b.Val)
		case OSlt:
			return c.Bool(sext(a.Val, w) < sext(b.Val, w))
		case OSle:
			return c.Bool(sext(a.Val, w) <= sext(b.Val, w))
		}
	}
	if a == b {
		return c.Bool(op == OUle || op == OSle)
	}
	if (op == OSlt || op == OSle) && c.Small != nil {
		if r, ok := c.signedBySmall(op, a, b, 10); ok {
			return r
		}
	}
	if a.Op == OIte && b.IsConst() && c.constLeaves(a, 8) {
		return c.Ite(a.Args[0], c.Cmp(op, a.Args[1], b), c.Cmp(op, a.Args[2], b))
	}
	if b.Op == OIte && a.IsConst() && c.constLeaves(b, 8) {
		return c.Ite(b.Args[0], c.Cmp(op, a, b.Args[1]), c.Cmp(op, a, b.Args[2]))
	}
	if op == OUlt && b.IsConst() && b.Val == 0 {
		return c.False()
	}
	if (op == OUlt || op == OUle) && (a.IsConst() || b.IsConst()) {
		x, k, constRight := a, b, true
		if a.IsConst() {
			x, k, constRight = b, a, false
		}
		ones, zeros := c.knownBits(x, 6)
		if ones != 0 || zeros != 0 {
			lo, hi := ones, ^zeros&mask(w)
			switch {
			case constRight && op == OUlt: // x < k
				if hi < k.Val {
					return c.True()
				}
				if lo >= k.Val {
					return c.False()
				}
			case constRight && op == OUle:
				if hi <= k.Val {
					return c.True()
				}
				if lo > k.Val {
					return c.False()
				}
			case !constRight && op == OUlt: // k < x
				if k.Val < lo {
					return c.True()
				}
				if k.Val >= hi {
					return c.False()
				}
			case !constRight && op == OUle:
				if k.Val <= lo {
					return c.True()
				}
				if k.Val > hi {
					return c.False()
				}
			}
		}
	}
	if op == OUle && a.IsConst() && a.Val == 0 {
		return c.True()
	}
	return c.mk(op, BoolSort, []*Term{a, b}, 0, "", 0, 0)
}

// UltNW / UleNW compare magnitudes that are known not to wrap (lengths, indices < 2^48 and small sums of them):
// a syntactically constant difference decides the comparison.
func (c *Ctx) UltNW(a, b *Term) *Term { return c.cmpNW(OUlt, a, b, 10) }
func (c *Ctx) UleNW(a, b *Term) *Term { return c.cmpNW(OUle, a, b, 10) }

// signOfDiff: -1 if a-b is certainly negative, +1 if certainly positive, 0 if certainly zero, 2 if unknown;
// le/ge report a<=b / a>=b. Decided from the linear form when every atom is a non-negative small quantity.
func (c *Ctx) signOfDiff(a, b *Term) (lt, le, gt, ge bool) {
	if c.NonNeg == nil || a.Sort.Width != 64 {
		return
	}
	d := c.lin(c.Sub(a, b))
	k := int64(d.k)
	if k < -(1<<50) || k > 1<<50 {
		return
	}
	allNeg, allPos := true, true
	for id, co := range d.atoms {
		sc := int64(co)
		if sc < -64 || sc > 64 || !c.NonNeg(d.terms[id]) {
			return
		}
		if sc > 0 {
			allNeg = false
		}
		if sc < 0 {
			allPos = false
		}
	}
	if allNeg {
		le = k <= 0
		lt = k < 0
	}
	if allPos {
		ge = k >= 0
		gt = k > 0
	}
	return
}

func (c *Ctx) cmpNW(op Op, a, b *Term, depth int) *Term {
	key := [3]int{int(op), a.ID, b.ID}
	if r, ok := c.nwMemo[key]; ok {
		return r
	}
	r := c.cmpNW1(op, a, b, depth)
	c.nwMemo[key] = r
	return r
}

// iteAtoms counts ite atoms in the linear form of t.
func (c *Ctx) iteAtoms(t *Term) int {
	n := 0
	for _, tm := range c.lin(t).terms {
		if tm.Op == OIte {
			n++
		}
	}
	return n
}

func (c *Ctx) cmpNW1(op Op, a, b *Term, depth int) *Term {
	if d, ok := c.DiffConst(a, b); ok {
		if op == OUlt {
			return c.Bool(d < 0)
		}
		return c.Bool(d <= 0)
	}
	if lt, le, gt, ge := c.signOfDiff(a, b); lt || le || gt || ge {
		switch {
		case op == OUlt && lt:
			return c.True()
		case op == OUlt && ge:
			return c.False()
		case op == OUle && le:
			return c.True()
		case op == OUle && gt:
			return c.False()
		}
	}
	if depth > 0 {
		for side := 0; side < 2; side++ {
			t := a
			if side == 1 {
				t = b
			}
			if t.Op != OAdd && t.Op != OSub && t.Op != ONeg || c.iteAtoms(t) > 2 {
				continue
			}
			if it := c.iteAtom(t); it != nil {
				tx := c.replaceAtom(t, it, it.Args[1])
				ty := c.replaceAtom(t, it, it.Args[2])
				var x, y *Term
				if side == 0 {
					x, y = c.cmpNW(op, tx, b, depth-1), c.cmpNW(op, ty, b, depth-1)
				} else {
					x, y = c.cmpNW(op, a, tx, depth-1), c.cmpNW(op, a, ty, depth-1)
				}
				if isBoolConst(x) && isBoolConst(y) {
					return c.Ite(it.Args[0], x, y)
				}
				break
			}
		}
		if b.Op == OIte {
			x, y := c.cmpNW(op, a, b.Args[1], depth-1), c.cmpNW(op, a, b.Args[2], depth-1)
			if isBoolConst(x) || isBoolConst(y) {
				return c.Ite(b.Args[0], x, y)
			}
		}
		if a.Op == OIte {
			x, y := c.cmpNW(op, a.Args[1], b, depth-1), c.cmpNW(op, a.Args[2], b, depth-1)
			if isBoolConst(x) || isBoolConst(y) {
				return c.Ite(a.Args[0], x, y)
			}
		}
	}
	return c.Cmp(op, a, b)
}

// knownBits returns masks of bits known to be one / known to be zero (within the term's width).
func (c *Ctx) knownBits(t *Term, depth int) (ones, zeros uint64) {
	w := t.Sort.Width
	m := mask(w)
	if depth == 0 {
		return 0, 0
	}
	switch t.Op {
	case OConst:
		return t.Val, ^t.Val & m
	case OBVOr:
		o1, z1 := c.knownBits(t.Args[0], depth-1)
		o2, z2 := c.knownBits(t.Args[1], depth-1)
		return o1 | o2, z1 & z2
	case OBVAnd:
		o1, z1 := c.knownBits(t.Args[0], depth-1)
		o2, z2 := c.knownBits(t.Args[1], depth-1)
		return o1 & o2, (z1 | z2) & m
	case OZeroExt:
		o1, z1 := c.knownBits(t.Args[0], depth-1)
		iw := t.Args[0].Sort.Width
		return o1, z1 | (m &^ mask(iw))
	case OExtract:
		o1, z1 := c.knownBits(t.Args[0], depth-1)
		return (o1 >> uint(t.P1)) & m, (z1 >> uint(t.P1)) & m
	case OLshr:
		if t.Args[1].IsConst() && t.Args[1].Val < uint64(w) {
			k := t.Args[1].Val
			o1, z1 := c.knownBits(t.Args[0], depth-1)
			return o1 >> k, (z1 >> k) | (m &^ (m >> k))
		}
	case OShl:
		if t.Args[1].IsConst() && t.Args[1].Val < uint64(w) {
			k := t.Args[1].Val
			o1, z1 := c.knownBits(t.Args[0], depth-1)
			return (o1 << k) & m, ((z1 << k) | mask(int(k))) & m
		}
	case OIte:
		o1, z1 := c.knownBits(t.Args[1], depth-1)
		o2, z2 := c.knownBits(t.Args[2], depth-1)
		return o1 & o2, z1 & z2
	}
	return 0, 0
}

// signedBySmall decides a signed comparison from a syntactically constant difference of small-magnitude terms.
func (c *Ctx) signedBySmall(op Op, a, b *Term, depth int) (*Term, bool) {
	if d, ok := c.DiffConst(a, b); ok && d > -(1<<40) && d < 1<<40 && c.Small(a) && c.Small(b) {
		if op == OSlt {
			return c.Bool(d < 0), true
		}
		return c.Bool(d <= 0), true
	}
	if c.Small(a) && c.Small(b) {
		if lt, le, gt, ge := c.signOfDiff(a, b); lt || le || gt || ge {
			switch {
			case op == OSlt && lt:
				return c.True(), true
			case op == OSlt && ge:
				return c.False(), true
			case op == OSle && le:
				return c.True(), true
			case op == OSle && gt:
				return c.False(), true
			}
		}
	}
	if depth > 0 {
		// an ite buried in a sum: compare case by case
		for side := 0; side < 2; side++ {
			t := a
			if side == 1 {
				t = b
			}
			if t.Op == OIte || (t.Op != OAdd && t.Op != OSub && t.Op != ONeg) || c.iteAtoms(t) > 2 {
				continue
			}
			if it := c.iteAtom(t); it != nil {
				tx := c.replaceAtom(t, it, it.Args[1])
				ty := c.replaceAtom(t, it, it.Args[2])
				var x, y *Term
				var okx, oky bool
				if side == 0 {
					x, okx = c.signedBySmall(op, tx, b, depth-1)
					y, oky = c.signedBySmall(op, ty, b, depth-1)
				} else {
					x, okx = c.signedBySmall(op, a, tx, depth-1)
					y, oky = c.signedBySmall(op, a, ty, depth-1)
				}
				if okx && oky {
					return c.Ite(it.Args[0], x, y), true
				}
				return nil, false
			}
		}
		if a.Op == OIte {
			x, okx := c.signedBySmall(op, a.Args[1], b, depth-1)
			y, oky := c.signedBySmall(op, a.Args[2], b, depth-1)
			if okx && oky {
				return c.Ite(a.Args[0], x, y), true
			}
		}
		if b.Op == OIte {
			x, okx := c.signedBySmall(op, a, b.Args[1], depth-1)
			y, oky := c.signedBySmall(op, a, b.Args[2], depth-1)
			if okx && oky {
				return c.Ite(b.Args[0], x, y), true
			}
		}
	}
	return nil, false
}

// iteAtom returns an ite that occurs as an atom of t's linear form (nil if none).
func (c *Ctx) iteAtom(t *Term) *Term {
	l := c.lin(t)
	best := -1
	for id, tm := range l.terms {
		if tm.Op == OIte && (best < 0 || id < best) {
			best = id
		}
	}
	if best < 0 {
		return nil
	}
	return l.terms[best]
}

// replaceAtom rebuilds the linear term t with atom `it` replaced by `by` (no deep substitution).
func (c *Ctx) replaceAtom(t, it, by *Term) *Term {
	l := c.lin(t)
	w := t.Sort.Width
	r := c.Const(l.k, w)
	ids := make([]int, 0, len(l.atoms))
	for id := range l.atoms {
		ids = append(ids, id)
	}
	sort.Ints(ids)
	for _, id := range ids {
		a := l.terms[id]
		if a == it {
			a = by
		}
		r = c.Add(r, c.Mul(c.Const(l.atoms[id], w), a))
	}
	return r
}

// LinAtoms exposes the linear form of t: constant part and (atom, coefficient) pairs.
func (c *Ctx) LinAtoms(t *Term) (uint64, []*Term, []uint64) {
	l := c.lin(t)
	var ts []*Term
	var cs []uint64
	for id, co := range l.atoms {
		ts = append(ts, l.terms[id])
		cs = append(cs, co)
	}
	return l.k, ts, cs
}

func (c *Ctx) Ult(a, b *Term) *Term { return c.Cmp(OUlt, a, b) }
func (c *Ctx) Ule(a, b *Term) *Term { return c.Cmp(OUle, a, b) }
func (c *Ctx) Slt(a, b *Term) *Term { return c.Cmp(OSlt, a, b) }
func (c *Ctx) Sle(a, b *Term) *Term { return c.Cmp(OSle, a, b) }

func (c *Ctx) Extract(a *Term, hi, lo int) *Term {
	w := a.Sort.Width
	if hi >= w || lo < 0 || hi < lo {
		panic(fmt.Sprintf("smt: bad extract [%d:%d] of width %d", hi, lo, w))
	}
	if lo == 0 && hi == w-1 {
		return a
	}
	nw := hi - lo + 1
	switch a.Op {
	case OConst:
		return c.Const(a.Val>>uint(lo), nw)
	case OExtract:
		return c.Extract(a.Args[0], hi+a.P1, lo+a.P1)
	case OZeroExt:
		iw := a.Args[0].Sort.Width
		if hi < iw {
			return c.Extract(a.Args[0], hi, lo)
		}
		if lo >= iw {
			return c.Const(0, nw)
		}
		return c.ZeroExt(c.Extract(a.Args[0], iw-1, lo), nw)
	case OSignExt:
		iw := a.Args[0].Sort.Width
		if hi < iw {
			return c.Extract(a.Args[0], hi, lo)
		}
	case OConcat:
		lw := a.Args[1].Sort.Width
		if hi < lw {
			return c.Extract(a.Args[1], hi, lo)
		}
		if lo >= lw {
			return c.Extract(a.Args[0], hi-lw, lo-lw)
		}
	case OIte:
		if c.constLeaves(a, 8) {
			return c.Ite(a.Args[0], c.Extract(a.Args[1], hi, lo), c.Extract(a.Args[2], hi, lo))
		}
	case OBVAnd, OBVOr, OBVXor:
		if lo == 0 || a.Args[1].IsConst() {
			return c.Bin(a.Op, c.Extract(a.Args[0], hi, lo), c.Extract(a.Args[1], hi, lo))
		}
	case OAdd, OSub, OMul, ONeg:
		if lo == 0 && nw < w {
			// truncation distributes over ring ops
			args := make([]*Term, len(a.Args))
			for i, x := range a.Args {
				args[i] = c.Extract(x, hi, 0)
			}
			switch a.Op {
			case OAdd:
				r := args[0]
				for _, x := range args[1:] {
					r = c.Add(r, x)
				}
				return r
			case OSub:
				return c.Sub(args[0], args[1])
			case OMul:
				return c.Mul(args[0], args[1])
			case ONeg:
				return c.Neg(args[0])
			}
		}
	case OLshr:
		// extract of (x >> k) with constant k, when in range
		if a.Args[1].IsConst() {
			k := int(a.Args[1].Val)
			if hi+k < w {
				return c.Extract(a.Args[0], hi+k, lo+k)
			}
		}
	case OShl:
		if a.Args[1].IsConst() {
			k := int(a.Args[1].Val)
			if lo >= k {
				return c.Extract(a.Args[0], hi-k, lo-k)
			}
			if hi < k {
				return c.Const(0, nw)
			}
		}
	}
	return c.mk(OExtract, BV(nw), []*Term{a}, 0, "", hi, lo)
}

func (c *Ctx) ZeroExt(a *Term, w int) *Term {
	iw := a.Sort.Width
	if w == iw {
		return a
	}
	if w < iw {
		panic("smt: zero_ext to smaller width")
	}
	if a.IsConst() {
		return c.Const(a.Val, w)
	}
	if a.Op == OZeroExt {
		return c.ZeroExt(a.Args[0], w)
	}
	if a.Op == OIte && c.constLeaves(a, 8) {
		return c.Ite(a.Args[0], c.ZeroExt(a.Args[1], w), c.ZeroExt(a.Args[2], w))
	}
	return c.mk(OZeroExt, BV(w), []*Term{a}, 0, "", w-iw, 0)
}

func (c *Ctx) SignExt(a *Term, w int) *Term {
	iw := a.Sort.Width
	if w == iw {
		return a
	}
	if w < iw {
		panic("smt: sign_ext to smaller width")
	}
	if a.IsConst() {
		return c.Const(uint64(sext(a.Val, iw)), w)
	}
	if a.Op == OZeroExt {
		return c.ZeroExt(a.Args[0], w)
	}
	if a.Op == OSignExt {
		return c.SignExt(a.Args[0], w)
	}
	return c.mk(OSignExt, BV(w), []*Term{a}, 0, "", w-iw, 0)
}

// Resize converts to width w (truncate, or extend by signedness).
func (c *Ctx) Resize(a *Term, w int, signed bool) *Term {
	iw := a.Sort.Width
	switch {
	case w == iw:
		return a
	case w < iw:
		return c.Extract(a, w-1, 0)
	case signed:
		return c.SignExt(a, w)
	}
	return c.ZeroExt(a, w)
}

func (c *Ctx) Concat(hi, lo *Term) *Term {
	w := hi.Sort.Width + lo.Sort.Width
	if hi.IsConst() && lo.IsConst() && w <= 64 {
		return c.Const(hi.Val<<uint(lo.Sort.Width)|lo.Val, w)
	}
	if hi.IsConst() && hi.Val == 0 {
		return c.ZeroExt(lo, w)
	}
	return c.mk(OConcat, BV(w), []*Term{hi, lo}, 0, "", 0, 0)
}

// Forall builds a universally quantified formula.
func (c *Ctx) Forall(bound []*Term, body *Term) *Term {
	if body.IsTrue() || body.IsFalse() {
		return body
	}
	t := c.mk(OForall, BoolSort, append([]*Term{body}, bound...), 0, "", len(bound), 0)
	return t
}

// ---------------------------------------------------------------- substitution

// Subst replaces terms according to m (by ID), rebuilding through the smart constructors.
func (c *Ctx) Subst(t *Term, m map[int]*Term) *Term {
	memo := map[int]*Term{}
	var rec func(t *Term) *Term
	rec = func(t *Term) *Term {
		if r, ok := m[t.ID]; ok {
			return r
		}
		if len(t.Args) == 0 {
			return t
		}
		if r, ok := memo[t.ID]; ok {
			return r
		}
		args := make([]*Term, len(t.Args))
		changed := false
		for i, a := range t.Args {
			args[i] = rec(a)
			if args[i] != a {
				changed = true
			}
		}
		r := t
		if changed {
			r = c.Rebuild(t, args)
		}
		memo[t.ID] = r
		return r
	}
	return rec(t)
}

// Rebuild re-applies t's operator to new arguments.
func (c *Ctx) Rebuild(t *Term, args []*Term) *Term {
	switch t.Op {
	case ONot:
		return c.Not(args[0])
	case OAnd:
		return c.And(args...)
	case OOr:
		return c.Or(args...)
	case OIte:
		return c.Ite(args[0], args[1], args[2])
	case OEq:
		return c.Eq(args[0], args[1])
	case OAdd:
		r := args[0]
		for _, a := range args[1:] {
			r = c.Add(r, a)
		}
		return r
	case OSub:
		return c.Sub(args[0], args[1])
	case OMul:
		return c.Mul(args[0], args[1])
	case ONeg:
		return c.Neg(args[0])
	case OUDiv, OURem, OSDiv, OSRem, OBVAnd, OBVOr, OBVXor, OShl, OLshr, OAshr:
		return c.Bin(t.Op, args[0], args[1])
	case OBVNot:
		return c.BVNot(args[0])
	case OUlt, OUle, OSlt, OSle:
		return c.Cmp(t.Op, args[0], args[1])
	case OExtract:
		return c.Extract(args[0], t.P0, t.P1)
	case OConcat:
		return c.Concat(args[0], args[1])
	case OZeroExt:
		return c.ZeroExt(args[0], t.Sort.Width)
	case OSignExt:
		return c.SignExt(args[0], t.Sort.Width)
	case OApp:
		return c.App(c.Funcs[t.Name], args...)
	case OForall:
		return c.Forall(args[1:], args[0])
	}
	panic(fmt.Sprintf("smt: rebuild of op %d", t.Op))
}

// AssumeTrue simplifies t under the assumption that each literal in lits holds.
func (c *Ctx) AssumeTrue(t *Term, lits []*Term) *Term {
	if len(lits) == 0 {
		return t
	}
	m := map[int]*Term{}
	for _, l := range lits {
		if l.Op == ONot {
			m[l.Args[0].ID] = c.False()
		} else {
			m[l.ID] = c.True()
		}
		m[c.Not(l).ID] = c.False()
	}
	return c.Subst(t, m)
}
