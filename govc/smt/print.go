package smt

import (
	"fmt"
	"sort"
	"strings"
)

// Short renders a term compactly for diagnostics (truncated).
func (c *Ctx) Short(t *Term) string {
	s := c.inline(t, 6)
	if len(s) > 400 {
		s = s[:400] + "…"
	}
	return s
}

func (c *Ctx) inline(t *Term, depth int) string {
	switch t.Op {
	case OVar, OBound:
		return quoteSym(t.Name)
	case OConst:
		return bvLit(t.Val, t.Sort.Width)
	case OTrue:
		return "true"
	case OFalse:
		return "false"
	}
	if depth == 0 {
		return fmt.Sprintf("t%d", t.ID)
	}
	var parts []string
	for _, a := range t.Args {
		parts = append(parts, c.inline(a, depth-1))
	}
	return "(" + headOf(t) + " " + strings.Join(parts, " ") + ")"
}

func quoteSym(s string) string {
	for _, r := range s {
		if !(r >= 'a' && r <= 'z' || r >= 'A' && r <= 'Z' || r >= '0' && r <= '9' || r == '_' || r == '.' || r == '!' || r == '$') {
			return "|" + s + "|"
		}
	}
	return s
}

func bvLit(v uint64, w int) string {
	if w%4 == 0 {
		return fmt.Sprintf("#x%0*x", w/4, v)
	}
	return fmt.Sprintf("#b%0*b", w, v)
}

func headOf(t *Term) string {
	switch t.Op {
	case OExtract:
		return fmt.Sprintf("(_ extract %d %d)", t.P0, t.P1)
	case OZeroExt:
		return fmt.Sprintf("(_ zero_extend %d)", t.P0)
	case OSignExt:
		return fmt.Sprintf("(_ sign_extend %d)", t.P0)
	case OApp:
		return quoteSym(t.Name)
	}
	return opNames[t.Op]
}

// Query is a printable satisfiability problem: is (and asserts...) satisfiable?
type Query struct {
	Asserts []*Term
	Values  []*Term // terms whose value is wanted on sat
}

// Print renders the query in SMT-LIB2. Shared subterms are hoisted into define-funs.
func (c *Ctx) Print(q *Query, forCVC5 bool) string {
	roots := append(append([]*Term{}, q.Asserts...), q.Values...)
	// count references, collect symbols, compute hasBound
	refs := map[int]int{}
	hasBound := map[int]bool{}
	var order []*Term
	vars := map[string]*Term{}
	funcs := map[string]bool{}
	var visit func(t *Term)
	visit = func(t *Term) {
		refs[t.ID]++
		if refs[t.ID] > 1 {
			return
		}
		hb := t.Op == OBound
		for _, a := range t.Args {
			visit(a)
			if hasBound[a.ID] {
				hb = true
			}
		}
		hasBound[t.ID] = hb
		switch t.Op {
		case OVar:
			vars[t.Name] = t
		case OApp:
			funcs[t.Name] = true
		}
		order = append(order, t)
	}
	for _, r := range roots {
		visit(r)
	}
	var sb strings.Builder
	if forCVC5 {
		sb.WriteString("(set-option :produce-models true)\n(set-logic ALL)\n")
	} else {
		sb.WriteString("(set-option :produce-models true)\n")
	}
	names := make([]string, 0, len(vars))
	for n := range vars {
		names = append(names, n)
	}
	sort.Strings(names)
	for _, n := range names {
		fmt.Fprintf(&sb, "(declare-fun %s () %s)\n", quoteSym(n), vars[n].Sort)
	}
	fnames := make([]string, 0, len(funcs))
	for n := range funcs {
		fnames = append(fnames, n)
	}
	sort.Strings(fnames)
	for _, n := range fnames {
		f := c.Funcs[n]
		var as []string
		for _, a := range f.Args {
			as = append(as, a.String())
		}
		fmt.Fprintf(&sb, "(declare-fun %s (%s) %s)\n", quoteSym(n), strings.Join(as, " "), f.Res)
	}
	named := map[int]string{}
	var expr func(t *Term) string
	expr = func(t *Term) string {
		if n, ok := named[t.ID]; ok {
			return n
		}
		switch t.Op {
		case OVar, OBound:
			return quoteSym(t.Name)
		case OConst:
			return bvLit(t.Val, t.Sort.Width)
		case OTrue:
			return "true"
		case OFalse:
			return "false"
		case OForall:
			var bs []string
			for _, b := range t.Args[1:] {
				bs = append(bs, fmt.Sprintf("(%s %s)", quoteSym(b.Name), b.Sort))
			}
			// subterms that mention a bound variable cannot be define-fun'ed; the ones used more than once inside this
			// body are let-bound (innermost-first), otherwise a shared DAG is printed as a tree
			lrefs := map[int]int{}
			var lorder []*Term
			var lvisit func(x *Term)
			lvisit = func(x *Term) {
				if !hasBound[x.ID] || len(x.Args) == 0 {
					return
				}
				if _, done := named[x.ID]; done {
					return
				}
				lrefs[x.ID]++
				if lrefs[x.ID] > 1 {
					return
				}
				if x.Op != OForall {
					for _, a := range x.Args {
						lvisit(a)
					}
				}
				lorder = append(lorder, x)
			}
			lvisit(t.Args[0])
			var lets []string
			var bound []int
			for _, x := range lorder {
				if lrefs[x.ID] < 2 || x.Op == OForall {
					continue
				}
				e := expr(x)
				n := fmt.Sprintf("l!%d", x.ID)
				lets = append(lets, fmt.Sprintf("(let ((%s %s)) ", n, e))
				named[x.ID] = n
				bound = append(bound, x.ID)
			}
			body := expr(t.Args[0])
			for _, id := range bound {
				delete(named, id)
			}
			return fmt.Sprintf("(forall (%s) %s%s%s)", strings.Join(bs, " "), strings.Join(lets, ""), body, strings.Repeat(")", len(lets)))
		}
		parts := make([]string, 0, len(t.Args)+1)
		parts = append(parts, headOf(t))
		for _, a := range t.Args {
			parts = append(parts, expr(a))
		}
		return "(" + strings.Join(parts, " ") + ")"
	}
	// order is post-order: children before parents
	for _, t := range order {
		if len(t.Args) == 0 || hasBound[t.ID] || refs[t.ID] < 2 {
			continue
		}
		e := expr(t)
		n := fmt.Sprintf("t!%d", t.ID)
		fmt.Fprintf(&sb, "(define-fun %s () %s %s)\n", n, t.Sort, e)
		named[t.ID] = n
	}
	for _, a := range q.Asserts {
		fmt.Fprintf(&sb, "(assert %s)\n", expr(a))
	}
	sb.WriteString("(check-sat)\n")
	if len(q.Values) > 0 {
		var vs []string
		for _, v := range q.Values {
			vs = append(vs, expr(v))
		}
		fmt.Fprintf(&sb, "(get-value (%s))\n", strings.Join(vs, " "))
	}
	return sb.String()
}

// Size returns the number of distinct nodes reachable from the query.
func (c *Ctx) Size(q *Query) int {
	seen := map[int]bool{}
	var visit func(t *Term)
	visit = func(t *Term) {
		if seen[t.ID] {
			return
		}
		seen[t.ID] = true
		for _, a := range t.Args {
			visit(a)
		}
	}
	for _, a := range q.Asserts {
		visit(a)
	}
	return len(seen)
}
