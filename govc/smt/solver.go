package smt

import (
	"bytes"
	"context"
	"fmt"
	"os"
	"os/exec"
	"path/filepath"
	"strconv"
	"strings"
	"sync"
	"time"
)

type Status int

const (
	Unsat Status = iota
	Sat
	Unknown
)

func (s Status) String() string { return [...]string{"unsat", "sat", "unknown"}[s] }

type Result struct {
	Status  Status
	Solver  string
	Seconds float64
	Values  []string // raw value strings, positional with Query.Values (sat only)
	Output  string   // raw solver output of the deciding (or last) solver
	Others  map[string]string
}

type SolverSpec struct {
	Name string
	Cmd  []string // file name appended
	CVC5 bool
}

func DefaultSolvers(timeoutSec int) []SolverSpec {
	ms := strconv.Itoa(timeoutSec * 1000)
	var out []SolverSpec
	if p, err := exec.LookPath("z3-new"); err == nil {
		out = append(out, SolverSpec{Name: "z3-5.1.0", Cmd: []string{p, "-T:" + strconv.Itoa(timeoutSec)}})
	}
	if p, err := exec.LookPath("z3"); err == nil {
		out = append(out, SolverSpec{Name: "z3-4.8.12", Cmd: []string{p, "-T:" + strconv.Itoa(timeoutSec)}})
	}
	if p, err := exec.LookPath("cvc5"); err == nil {
		out = append(out, SolverSpec{Name: "cvc5-1.0", Cmd: []string{p, "--tlimit=" + ms, "--lang=smt2"}, CVC5: true})
	}
	return out
}

// Solve races the solvers on the query. need = how many agreeing definitive answers are wanted (1 or 2).
func (c *Ctx) Solve(q *Query, solvers []SolverSpec, dir, tag string, timeoutSec int, need int) Result {
	return SolveText(c.Print(q, false), c.Print(q, true), len(q.Values), solvers, dir, tag, timeoutSec, need)
}

// SolveText decides a printed query (safe to call concurrently). With need==1 the first solver is tried alone for a
// short time (most queries fall within a second); the full portfolio races only on what is left.
func SolveText(textStd, textCVC string, nvals int, solvers []SolverSpec, dir, tag string, timeoutSec int, need int) Result {
	if need == 1 && len(solvers) > 1 && timeoutSec > 3 {
		first := solvers[0]
		first.Cmd = append([]string{}, first.Cmd...)
		for i, a := range first.Cmd {
			if strings.HasPrefix(a, "-T:") {
				first.Cmd[i] = "-T:3"
			}
		}
		r := solveRace(textStd, textCVC, nvals, []SolverSpec{first}, dir, tag+".q", 3, 1)
		if r.Status != Unknown {
			return r
		}
		r2 := solveRace(textStd, textCVC, nvals, solvers, dir, tag, timeoutSec, need)
		r2.Seconds += r.Seconds
		return r2
	}
	return solveRace(textStd, textCVC, nvals, solvers, dir, tag, timeoutSec, need)
}

func solveRace(textStd, textCVC string, nvals int, solvers []SolverSpec, dir, tag string, timeoutSec int, need int) Result {
	ctx, cancel := context.WithTimeout(context.Background(), time.Duration(timeoutSec+2)*time.Second)
	defer cancel()
	ch := make(chan Result, len(solvers))
	var wg sync.WaitGroup
	for i, s := range solvers {
		text := textStd
		if s.CVC5 {
			text = textCVC
		}
		file := filepath.Join(dir, fmt.Sprintf("%s.%d.smt2", Sanitize(tag), i))
		if err := os.WriteFile(file, []byte(text), 0o644); err != nil {
			panic(err)
		}
		wg.Add(1)
		go func(s SolverSpec, file string) {
			defer wg.Done()
			t0 := time.Now()
			cmd := exec.CommandContext(ctx, s.Cmd[0], append(s.Cmd[1:], file)...)
			var out bytes.Buffer
			cmd.Stdout = &out
			cmd.Stderr = &out
			_ = cmd.Run()
			r := Result{Solver: s.Name, Seconds: time.Since(t0).Seconds(), Output: out.String(), Status: Unknown}
			first := strings.TrimSpace(strings.SplitN(out.String(), "\n", 2)[0])
			switch first {
			case "unsat":
				r.Status = Unsat
			case "sat":
				r.Status = Sat
				rest := ""
				if i := strings.Index(out.String(), "\n"); i >= 0 {
					rest = out.String()[i+1:]
				}
				r.Values = parseValues(rest, nvals)
			}
			ch <- r
		}(s, file)
	}
	go func() { wg.Wait(); close(ch) }()
	var best *Result
	agree := 0
	others := map[string]string{}
	var last Result
	for r := range ch {
		last = r
		others[r.Solver] = fmt.Sprintf("%s %.2fs", r.Status, r.Seconds)
		if r.Status == Unknown {
			continue
		}
		if best == nil {
			rr := r
			best = &rr
			agree = 1
		} else if best.Status == r.Status {
			agree++
		} else {
			// disagreement: report unknown, keep both outputs
			best.Status = Unknown
			best.Output = "SOLVER DISAGREEMENT: " + best.Solver + " vs " + r.Solver + "\n" + best.Output
			cancel()
			break
		}
		if agree >= need {
			cancel()
			break
		}
	}
	if best == nil {
		last.Others = others
		last.Status = Unknown
		return last
	}
	best.Others = others
	return *best
}

// parseValues parses "((e v) (e v) ...)" into the list of v strings.
func parseValues(s string, n int) []string {
	s = strings.TrimSpace(s)
	if n == 0 || !strings.HasPrefix(s, "(") {
		return nil
	}
	// tokenise into top-level pairs
	var vals []string
	depth := 0
	start := -1
	for i := 0; i < len(s); i++ {
		switch s[i] {
		case '|':
			j := strings.IndexByte(s[i+1:], '|')
			if j < 0 {
				return vals
			}
			i += j + 1
		case '(':
			depth++
			if depth == 2 {
				start = i
			}
		case ')':
			if depth == 2 && start >= 0 {
				pair := s[start+1 : i]
				vals = append(vals, lastSexp(pair))
				start = -1
			}
			depth--
		}
	}
	return vals
}

// lastSexp returns the last s-expression of a "(expr value" body.
func lastSexp(p string) string {
	p = strings.TrimSpace(p)
	if strings.HasSuffix(p, ")") {
		depth := 0
		for i := len(p) - 1; i >= 0; i-- {
			switch p[i] {
			case ')':
				depth++
			case '(':
				depth--
				if depth == 0 {
					return p[i:]
				}
			}
		}
		return p
	}
	i := strings.LastIndexAny(p, " \t\n")
	return p[i+1:]
}

// ParseBV converts a solver value string to uint64.
func ParseBV(v string) (uint64, bool) {
	v = strings.TrimSpace(v)
	switch {
	case v == "true":
		return 1, true
	case v == "false":
		return 0, true
	case strings.HasPrefix(v, "#x"):
		x, err := strconv.ParseUint(v[2:], 16, 64)
		return x, err == nil
	case strings.HasPrefix(v, "#b"):
		x, err := strconv.ParseUint(v[2:], 2, 64)
		return x, err == nil
	case strings.HasPrefix(v, "(_ bv"):
		f := strings.Fields(v[5:])
		x, err := strconv.ParseUint(f[0], 10, 64)
		return x, err == nil
	}
	return 0, false
}
