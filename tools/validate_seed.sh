#!/bin/sh
# usage: tools/validate_seed.sh <patch.diff> <demo_test.go> <demo dir (. or commit)> <TestRegexp>
# Confirms a seeded change in a scratch worktree of /repo (outside /repo and /verif, removed afterwards):
#  the patch applies to HEAD, builds, the existing suite passes with it, the demonstration fails with it and passes without.
patch=$(readlink -f "$1"); demo=$(readlink -f "$2"); ddir="$3"; re="$4"
export GOFLAGS=-mod=mod GOPROXY=off GOSUMDB=off GOTOOLCHAIN=local
wt=$(mktemp -d /tmp/valseed.XXXXXX); rmdir "$wt"
git -C /repo worktree add -q --detach "$wt" HEAD || exit 2
trap 'git -C /repo worktree remove --force "$wt" >/dev/null 2>&1; rm -rf "$wt"' EXIT
cd "$wt" || exit 2
res=""
git apply "$patch" 2>/dev/null || { echo "RESULT apply=FAIL"; exit 1; }
go build ./... >/dev/null 2>&1 || { echo "RESULT apply=ok build=FAIL"; exit 1; }
if go test -vet=off -count=1 ./... >/tmp/$$.suite 2>&1; then suite=pass; else suite=FAIL; fi
rm -f /tmp/$$.suite
cp "$demo" "$ddir/zz_seed_demo_test.go"
if go test -vet=off -count=1 -timeout 300s -run "$re" "./$ddir" >/dev/null 2>&1; then with=pass; else with=fail; fi
rm "$ddir/zz_seed_demo_test.go"; git checkout -q -- .
cp "$demo" "$ddir/zz_seed_demo_test.go"
if go test -vet=off -count=1 -timeout 300s -run "$re" "./$ddir" >/dev/null 2>&1; then without=pass; else without=fail; fi
echo "RESULT apply=ok build=ok suite=$suite demo_with_patch=$with demo_without_patch=$without"
[ "$suite" = pass ] && [ "$with" = fail ] && [ "$without" = pass ]
