#!/usr/bin/env python3
# usage: tools/import_seed.py <PROP> [<PROP>...] — copies a sub-agent's deliverables from /tmp/seed/<PROP> into /verif/seeded/<PROP>-s<n>/
# (patch.diff, demo_test.go, meta.json) and validates each in a scratch worktree (tools/validate_seed.sh).
import json, os, shutil, subprocess, sys
from concurrent.futures import ThreadPoolExecutor
jobs = []
for arg in sys.argv[1:]:
    # <PROP> (first round, seeds s1/s2), <PROP>b (second sample from /tmp/seed/<PROP>b, stored as s3/s4) or <PROP>c (third sample, s5/s6)
    src = f'/tmp/seed/{arg}'
    prop, shift = (arg[:-1], 2) if arg.endswith('b') else ((arg[:-1], 4) if arg.endswith('c') else (arg, 0))
    meta = json.load(open(f'{src}/SEED_meta.json'))
    for s in meta['seeds']:
        k = s['n']
        n = k + shift
        d = f'/verif/seeded/{prop}-s{n}'
        os.makedirs(d, exist_ok=True)
        shutil.copy(f'{src}/SEED{k}_patch.diff', f'{d}/patch.diff')
        demo = f'{src}/zz_seed{k}_test.go'
        if not os.path.exists(demo):
            demo = f'{src}/commit/zz_seed{k}_test.go'
        shutil.copy(demo, f'{d}/demo_test.go')
        jobs.append((prop, n, d, s))
def run(job):
    prop, n, d, s = job
    ddir = s.get('demo_dir', '.') or '.'
    ddir = ddir.strip('./') or '.'
    r = subprocess.run(['/verif/tools/validate_seed.sh', f'{d}/patch.diff', f'{d}/demo_test.go', ddir, '^' + s['demo_test'] + '$'],
                       capture_output=True, text=True)
    line = [l for l in r.stdout.splitlines() if l.startswith('RESULT')]
    res = line[-1] if line else 'RESULT none: ' + r.stderr[-300:]
    m = {
        'id': f'{prop}-s{n}', 'property': prop, 'origin': 'fresh sub-agent given only the property text and a scratch worktree',
        'summary': s.get('summary'), 'function_changed': s.get('function_changed'),
        'needs_to_manifest': s.get('needs_to_manifest'),
        'demo_test': s['demo_test'], 'demo_dir': ddir,
        'subagent_verified': s.get('verified'),
        'confirmed_by_me': {'command': f'tools/validate_seed.sh seeded/{prop}-s{n}/patch.diff seeded/{prop}-s{n}/demo_test.go {ddir} ^{s["demo_test"]}$',
                            'result': res, 'ok': r.returncode == 0},
    }
    json.dump(m, open(f'{d}/meta.json', 'w'), indent=1, ensure_ascii=False)
    return f'{prop}-s{n}: {res}'
with ThreadPoolExecutor(max_workers=5) as ex:
    for out in ex.map(run, jobs):
        print(out, flush=True)
