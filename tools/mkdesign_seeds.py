#!/usr/bin/env python3
# Rewrites the table of DESIGN.md section 9 (between the markers) from /verif/seeded/*/meta.json and /verif/seeded/results/*.json
import json, os, re
rows = []
for sid in sorted(os.listdir('/verif/seeded')):
    mp = f'/verif/seeded/{sid}/meta.json'
    if not os.path.isfile(mp):
        continue
    m = json.load(open(mp))
    rp = f'/verif/seeded/results/{sid}.json'
    res = json.load(open(rp)) if os.path.exists(rp) else {'checks': {}}
    fn = (m.get('function_changed') or '').replace('|', '/').replace('\n', ' ')
    fn = re.sub(r'\s+', ' ', fn)[:110]
    cells = []
    for p, c in sorted(res['checks'].items()):
        if c['caught']:
            obl = ', '.join('`' + o.split('.', 1)[-1] + '`' for o in c['obligations'][:2])
            cells.append(f"{p}: caught — {obl}")
        else:
            cells.append(f"{p}: **missed**" if c['exit'] in (0, 1) else f"{p}: error (exit {c['exit']})")
    rows.append(f"| {sid} | {fn} | {'; '.join(cells) or 'not run yet'} |")
table = "| seed | what was changed | check of the seed's property: outcome and first failing obligations |\n|---|---|---|\n" + "\n".join(rows)
n = len(rows)
caught = sum(1 for r in rows if 'caught' in r and 'missed' not in r)
summary = f"\n\n{caught} of {n} seeded changes are reported by the check of their own property (quick tier).\n"
p = '/verif/DESIGN.md'
c = open(p).read()
a, b = '<!-- seeds:begin -->', '<!-- seeds:end -->'
assert a in c and b in c
c = c[:c.index(a) + len(a)] + "\n" + table + summary + c[c.index(b):]
open(p, 'w').write(c)
print(caught, 'of', n)
