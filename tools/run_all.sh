#!/bin/sh
# usage: tools/run_all.sh [tier] — runs every registered check once and prints one summary line per property
tier="${1:-quick}"
cd /verif || exit 2
for p in C01 C02 C03 C04 C05 C06 C07 C08 C09 C10 C11 C12 C13 C14 C15 C16 C17 C18 C19; do
  t0=$(date +%s)
  ./check $p $tier > /tmp/runall.$p.out 2>&1; rc=$?
  t1=$(date +%s)
  echo "$p exit=$rc $((t1-t0))s $(grep -c '^VIOLATION' /tmp/runall.$p.out) violations, $(grep -c '^KNOWN-FINDING' /tmp/runall.$p.out) known | $(grep '^govc:' /tmp/runall.$p.out | cut -c1-160)"
  grep '^VIOLATION' /tmp/runall.$p.out | cut -c1-260
done
