#!/usr/bin/env python3
# Generates /verif/MANIFEST.json from the table below (kept in one place so that it stays consistent).
import json, subprocess
props = [json.loads(l)['id'] for l in open('/verif/properties.jsonl')]
hook_commits = subprocess.run(['git','-C','/repo','log','--format=%h','--grep=^verif:'],capture_output=True,text=True).stdout.split()

COMMON_NOTE = ("Trusted base (also listed per run in the evidence file): the govc engine itself (go/ssa symbolic execution, term rewriting, "
 "memory model), x/tools go/ssa, the SMT solvers; linux/amd64 word sizes; allocation never fails and slices stay below 2^48 elements; "
 "float arithmetic uninterpreted (values are compared bit for bit); unsafe string/byte aliasing idioms axiomatised; lock operations are "
 "no-ops inside sequential obligations; dependency models named in the evidence. ")

claims = {
 "C05": dict(text="Every obligation is a verification condition generated from go/ssa of the real commit package (working tree, -tags verif) and discharged by z3/cvc5 for all inputs: "
   "for every buffer state, operation kind, offset < 2^31 (every varint length, negative deltas, block switches), value and run start, the real Reader.Next positioned on the bytes the real writer appended "
   "decodes the same kind, offset and value and stops exactly at the end; writers are append-only and record block headers exactly; typed wrappers and getters are inverse. "
   "Sequence-level statements follow by the induction written in DESIGN section 6/C05 whose steps are these obligations.",
   note=COMMON_NOTE+"Not covered by obligations yet: serialisation through iostream/s2 (Buffer/Commit/Log WriteTo/ReadFrom), Swap rewrites, Reader.Range header walk; writeOffset is unrolled 5x with a proved unwinding assertion (complete for uint32).",
   technique="contract-based deductive verification: Go-coded contracts on the real functions, weakest-precondition style VC generation over go/ssa, bit-vector SMT (z3 5.1/4.8, cvc5)",
   ref="DESIGN 6/C05"),
 "C01": dict(text="Per-operation contracts of every numeric Apply closure (10 kinds), bool and string Apply, and the typed loaders, discharged for all storage states, buffer states, offsets, values and user merge functions: "
   "a put stores the value bit for bit at the decoded position and sets presence, merge combines with the stored value (zero when absent) and rewrites the buffer as put(result), delete clears presence and the value, "
   "nothing else changes; loaders report exactly the present cell and are safe beyond the column.",
   note=COMMON_NOTE+"Apply loops are verified per decoded operation (loop unrolled to the run written by the real writer, unwinding assertion proved); composition over a run and over transactions is the induction in DESIGN 6/C01. "
   "Drives the reader with the two shortest offset encodings (others are C05). Not yet under contract: enum/key/record Apply, commitCapacity/Grow coverage, CreateColumn on populated collections.",
   technique="contract-based deductive verification (govc: go/ssa VC generation + SMT)", ref="DESIGN 6/C01"),
}

checks=[]
for p in props:
    if p in claims:
        c=claims[p]
        checks.append({
          "property_id": p,
          "quick_cmd": f"./check {p} quick",
          "thorough_cmd": f"./check {p} thorough",
          "evidence_file": f"/verif/evidence/{p}.json",
          "replay_cmd_template": "cat {path}",
          "engine": "govc",
          "level_claimed": {"category":"proof","text":c["text"],"design_ref":c["ref"]},
          "level_note": c["note"],
          "technique": c["technique"],
        })
na=[{"property_id":p,"reason":"no check registered yet: contracts for this property are still being written (work in progress, see DESIGN section 9)"} for p in props if p not in claims]
m={
 "version":1,
 "setup_cmd":"cd /verif/govc && GOFLAGS=-mod=vendor GOPROXY=off GOSUMDB=off GOTOOLCHAIN=local go build -o /verif/bin/govc ./cmd/govc",
 "hooks":{"guard":"verif","enable":"go build -tags verif: adds /repo/verif_spec.go, /repo/verif_contracts.go, /repo/commit/verif_spec.go, /repo/commit/verif_contracts.go (contracts and executable specification functions only)",
   "baseline_off_cmd":"cd /repo && GOFLAGS=-mod=mod GOPROXY=off GOSUMDB=off go test -vet=off -count=1 -timeout 25m ./...",
   "source_commits":hook_commits,"add_only":True},
 "engines":[{"name":"govc","path":"/verif/govc","serves_properties":[c["property_id"] for c in checks],
   "kind_free_text":"self-built deductive verifier for Go: contracts written as Go functions (requires/ensures/assert/assume/loop intrinsics) in verif-tagged files of /repo; go/ssa symbolic execution with exact bit-vector integers and an update-list heap model generates one SMT query per obligation; z3 5.1.0 / z3 4.8.12 / cvc5 1.0 portfolio"}],
 "checks":checks,
 "notes":"See /verif/DESIGN.md. Fix commits in /repo start with 'fix:'; known findings and fixed entries are in /verif/known_findings.json.",
 "not_applicable":na,
}
json.dump(m,open('/verif/MANIFEST.json','w'),indent=1)
print(len(checks),"checks",len(na),"n/a")
