#!/usr/bin/env python3
# Generates /verif/MANIFEST.json from the table below (kept in one place so that it stays consistent).
import json, subprocess
props = [json.loads(l)['id'] for l in open('/verif/properties.jsonl')]
hook_commits = subprocess.run(['git','-C','/repo','log','--format=%h','--grep=^verif:'],capture_output=True,text=True).stdout.split()

COMMON_NOTE = ("Trusted base (also listed per run in the evidence file): the govc engine itself (go/ssa symbolic execution, term rewriting, "
 "memory model), x/tools go/ssa, the SMT solvers; linux/amd64 word sizes; allocation never fails and slices stay below 2^48 elements; "
 "float arithmetic uninterpreted (values are compared bit for bit); unsafe string/byte aliasing idioms axiomatised; lock operations are "
 "no-ops inside sequential obligations; dependency models named in the evidence. ")

T = "contract-based deductive verification: Go-coded contracts on the real functions, VC generation over go/ssa (govc), bit-vector SMT (z3 5.1/4.8, cvc5)"
def C(text, note, ref): return dict(text=text, note=COMMON_NOTE+note, technique=T, ref=ref)
claims = {
 "C01": C("Per-operation contracts of every numeric Apply closure (10 kinds), bool, string and key Apply and the typed loaders, discharged for all storage states, buffer states, offsets, values and user merge functions: put stores the value bit for bit at the decoded position and sets presence, merge combines with the stored value (zero when absent), rewrites the buffer as put(result), delete clears presence and value, nothing else changes (frames), the storage invariant (absent cells hold zero) is kept; loaders report exactly the present cell and are safe beyond the column.",
   "Apply loops are verified per decoded operation (loop unrolled to the run the real writer produced, unwinding assertion proved); composition over a run / transactions is the induction of DESIGN 6/C01. Reader driven with the two shortest offset encodings (all encodings: C05). Not under contract: enum Apply (intmap/xxh3), record marshalling, Grow/commitCapacity loops (CreateColumn coverage was repaired, D9, its obligation is not yet machine-checked).", "DESIGN 6/C01"),
 "C02": C("Contracts on Collection.Query (error => exactly one rollback, no commit, error returned; nil => exactly one commit), Txn.rollback (recount under the mutex, buffers dropped, nothing emitted, no id drawn, locks released), Collection.free and findMarkers, discharged for all inputs.",
   "rollback/commit/reset/acquire are replaced by their (assumed) contracts inside Query; that writers only touch transaction buffers and readers only storage is not yet a discharged frame obligation. Known design gaps D3/D4/D15 (reserved offsets visible before commit, failed insert leaves its marker) are not expressed as obligations and therefore neither proved nor reported.", "DESIGN 6/C02"),
 "C03": C("Per-operation contract of columnIndex.Apply (put => bit := rule(reader on that operation), rule called once; delete => cleared; other kinds and other bits untouched), plus the column Snapshot contracts the back-fill of CreateIndex consumes (one put per present cell at its absolute offset with the stored value, for numeric, bool, string and enum columns) and the Snapshot wrapper (skips exactly indexes).",
   "CreateIndex's loop over blocks, commitUpdates' second pass and commitMarkers' propagation of row deletes are not yet under contract (composition argued in DESIGN 6/C03). bitmap.Range is a model (per-element obligations for an arbitrary present cell).", "DESIGN 6/C03"),
 "C04": C("Contracts on the locked iteration skeleton of every filter (rangeRead, rangeReadPair: one call per block of the selection, ascending, exact block window, unbounded loop cut by an invariant), Txn.Range (callback gets block start + bit, cursor on that row, row selected) and the typed loaders.",
   "The per-block Boolean algebra of With/Without/Union/WithUnion, the typed filters and the aggregates are not yet under contract (bitmap And/AndNot models exist); D10 (WithUnion with one column) was repaired, D11 (aggregates ignore presence) is not expressed. This check therefore decides the iteration/cursor half of the statement only.", "DESIGN 6/C04"),
 "C05": C("Every obligation is a verification condition generated from go/ssa of the real commit package and discharged for all inputs: for every buffer state, operation kind, offset < 2^31 (every varint length, negative deltas, block switches), value and run start, the real Reader.Next positioned on the bytes the real writer appended decodes the same kind, offset and value and stops exactly at the end; writers are append-only and record block headers exactly; typed wrappers and getters are inverse; IndexAtChunk is the offset inside the block.",
   "Not covered by obligations: serialisation through iostream/s2 (Buffer/Commit/Log WriteTo/ReadFrom byte layouts), Swap rewrites on their own (covered only through the numeric merge lemmas of C01), Reader.Range's header walk; writeOffset is unrolled 5x with a proved unwinding assertion (complete for uint32).", "DESIGN 6/C05"),
 "C06": C("Contracts on the Replay callback (marks the commit's block, takes over every non-empty buffer in order: unbounded loop with invariant and step clause), on the commit phase run for a replayed transaction (touches only the commit's block - repaired defect D8), on the emission step (each emitted commit carries its block and the id stored for it, inside the latch) and on Commit/Buffer Clone (deep copy, id kept).",
   "Equality of replica and primary state is the induction of DESIGN 6/C06 over these obligations plus C01/C03/C11/C12; interleavings are covered only through the lock-invariant meta-theorem (2.9). D2 (size-changing string merge followed by a store to the same row) is a known design defect not expressed as an obligation.", "DESIGN 6/C06"),
 "C07": C("Contracts on every column kind's Snapshot (numeric, bool, string, enum: each appended operation is a put of a present cell at its absolute offset with the stored value), the Snapshot wrapper (skips exactly indexes, resets and names the buffer), and the per-block restore step (a failed read is an error; the block is marked).",
   "writeState/readState token agreement (column count, order) and the s2/iostream byte layout are not under contract; bitmap.Range is a model (arbitrary present cell).", "DESIGN 6/C07"),
 "C08": C("Contracts on rangeWrite (commit id drawn inside the block latch, larger than every earlier id, stored for the block before the delegate runs, latch exclusive, collection mutex not held), on the emission step (recorded/emitted inside the latch with the stored id), on commit.Next and on Restore's reconciliation (replays a logged commit iff its id exceeds the stored id).",
   "Schedules are covered through the lock-invariant meta-theorem of DESIGN 2.9 (assumed): the obligations make its antecedent true for the commit protocol; no interleaving is enumerated. readChunk/chunks and the recorder window are not yet under contract (D14 repaired).", "DESIGN 6/C08"),
 "C09": C("The merge clauses of every numeric and the string Apply (stored value := merge(stored or zero, delta) for every deterministic user merge function, buffer rewritten as put(result), exactly one read-modify-write per decoded merge) and the rangeWrite contract (the delegate runs inside the exclusive latch of the block).",
   "Mutual exclusion => serialisability of the per-block critical sections is the assumed meta-theorem (2.9). Float addition is uninterpreted (the fold is stated with the merge function applied in latch order).", "DESIGN 6/C09"),
 "C10": C("Contracts on QueryAt (callback runs with the cursor on the row and the read latch of the row's block held, released afterwards, error returned), rangeRead/rangeReadPair (read latch of exactly the visited block held during the delegate), Txn.Range (latch of the row's block) and rangeWrite (exclusive latch during the whole per-block commit step).",
   "The step from 'latch held' to 'no torn read' is the lock-invariant meta-theorem (2.9, assumed). Ascend and CreateIndex take no latch (D17, known design gap, not expressed).", "DESIGN 6/C10"),
 "C11": C("Contracts on findFreeIndex (returned offset is unoccupied), next (offset was free, is marked, count incremented, other bits kept, mutex released), free (bit cleared, recount under the mutex), the delete and merge clauses of every Apply (delete clears presence and value; merge into an absent cell starts from zero - repaired defect D5).",
   "findFreeIndex's scan branch assumes the pigeonhole consequence of the mutex invariant popcount(fill) < count (no popcount theory); commitMarkers' two critical sections and concurrent next() are covered only by the lock discipline (2.9). D4 (failed insert keeps its marker) is not expressed.", "DESIGN 6/C11"),
 "C12": C("Per-operation contract of columnKey.Apply (put stores the key, makes it resolve to the row and removes the row's previous key - repaired defect D16a; delete clears the cell and removes the key; unrelated keys keep their mapping) and contracts on InsertKey/UpsertKey/QueryKey/DeleteKey (error iff the key does / does not resolve; exactly one insert or one visit of the resolved row).",
   "String keys are identified by an abstract content id (equal strings: equal ids; the link from ids to bytes is assumed). Uniqueness under two InsertKey of one key inside one transaction or concurrently (D16b/c) is a known design gap: the existence check consults the committed table only; not expressed as an obligation.", "DESIGN 6/C12"),
 "C13": C("Over the sticky-failure token-stream model of iostream: Commit.ReadFrom returns nil only if every read succeeded and reports every failure; Log.Range (unbounded loop, invariant) hands only completely read commits to the callback and returns nil only at a clean end of stream; the per-block restore step returns an error whenever a read failed (so Query rolls the partial block back); Restore replays iff the id is greater.",
   "Truncation is modelled as: some read fails and every later read fails (assumed; s2 delivers whole blocks or an error). Byte-level prefixes, panics inside s2/iostream and allocation for a corrupted length token (declared maypanic in readChunksFrom) are outside the contracts.", "DESIGN 6/C13"),
 "C14": C("Contract on Collection.Snapshot over ghost descriptor/temp-file counters and nondeterministic failures of every step: the error of the failing step is returned, the recorder pointer set by this call is cleared on every way out, no descriptor and no temporary file remains, a call during another snapshot fails without touching the recorder (repaired defect D18).",
   "os/commit.Log file operations are models (OpenTemp/Close/Copy/Remove/Name); writeState is replaced by an assumed contract (returns an arbitrary error); its own error propagation is not yet under contract.", "DESIGN 6/C14"),
 "C15": C("Contracts on the commit step: every commit reaching a logger is emitted inside the latch of its own block with the id stored for that block and a non-zero id; exactly one emission per visited dirty block when rows changed or updates were applied, none otherwise; rollback emits nothing and draws no id; commit.Next increments (ids distinct, increasing); Commit.Clone keeps the id (repaired D7); the id is drawn inside the latch (repaired D13).",
   "bitmap.Range over the dirty set is a model (one arbitrary dirty block per check; once-per-block is the dependency's assumed contract). Per-block order across writers follows from the latch via the meta-theorem (2.9).", "DESIGN 6/C15"),
 "C16": C("Contract on the comparator built by newSortIndex (irreflexive, asymmetric, total on items that differ in key or offset - repaired defect D12 - and ordering by key first) and the per-operation contract of columnSortIndex.Apply over a ghost model of the tree (put removes the row's previous entry and inserts (value, offset), delete removes the entry, other kinds nothing).",
   "btree is a model (ordered set modulo the comparator; Scan order assumed). Ascend's filtering by the selection is not yet under contract; string order is an uninterpreted strict total order on content ids (transitivity not axiomatised, not needed by the obligations).", "DESIGN 6/C16"),
 "C17": C("Contracts on the cleanup step (the body of the vacuum callback, addressed by its SSA name): a delete is queued iff the row holds a non-zero deadline strictly before the clock value, for exactly the row under the cursor; ExpiresAt reports a deadline iff present and non-zero; writeTTL stores now+ttl or 0; Extend is a merge of the delta (then C01/C09).",
   "Safety half only: that expired rows are removed within a few intervals is wall-clock liveness of a goroutine with select (outside contracts). time.Time is abstracted to nanoseconds (model). The race between a cleanup's read and a concurrent Extend (D19) is an observation, not an obligation.", "DESIGN 6/C17"),
 "C18": C("Ghost lock-set contracts on the locking functions: QueryAt, rangeRead, rangeReadPair, rangeWrite, the commit step, rollback, next and free acquire in rank order (block latch < collection mutex < column locks), never twice, and release everything on every path (checked at every Lock/Unlock model and at every return).",
   "Data-race freedom follows from these obligations only under the guard map and meta-theorem of DESIGN 2.9 (assumed); accesses that bypass their guard (D17: readers of a column's chunk list vs Grow, enum intern table, CreateIndex/Ascend without latch) are known design gaps and are not expressed as obligations.", "DESIGN 6/C18"),
 "C19": C("Per-operation contract of columnTrigger.Apply: the callback is called exactly once for a put and for a delete with the reader positioned on that operation (offset, kind, value) and not at all for any other kind.",
   "commitUpdates' second pass (triggers see the merge-rewritten buffer) and commitMarkers' propagation of row deletes are argued in DESIGN 6/C19, not yet under contract; D2 affects the order of reports after a size-changing string merge (known design defect, not expressed).", "DESIGN 6/C19"),
}
checks=[]
for p in props:
    if p in claims:
        c=claims[p]
        checks.append({
          "property_id": p,
          "quick_cmd": f"./check {p} quick",
          "thorough_cmd": f"./check {p} thorough",
          "evidence_file": f"/verif/evidence/{p}.json",
          "replay_cmd_template": "cat {path}",
          "engine": "govc",
          "level_claimed": {"category":"proof","text":c["text"],"design_ref":c["ref"]},
          "level_note": c["note"],
          "technique": c["technique"],
        })
na=[{"property_id":p,"reason":"no check registered yet: contracts for this property are still being written (work in progress, see DESIGN section 9)"} for p in props if p not in claims]
m={
 "version":1,
 "setup_cmd":"cd /verif/govc && GOFLAGS=-mod=vendor GOPROXY=off GOSUMDB=off GOTOOLCHAIN=local go build -o /verif/bin/govc ./cmd/govc",
 "hooks":{"guard":"verif","enable":"go build -tags verif: adds /repo/verif_spec.go, /repo/verif_contracts.go, /repo/commit/verif_spec.go, /repo/commit/verif_contracts.go (contracts and executable specification functions only)",
   "baseline_off_cmd":"cd /repo && GOFLAGS=-mod=mod GOPROXY=off GOSUMDB=off go test -vet=off -count=1 -timeout 25m ./...",
   "source_commits":hook_commits,"add_only":True},
 "engines":[{"name":"govc","path":"/verif/govc","serves_properties":[c["property_id"] for c in checks],
   "kind_free_text":"self-built deductive verifier for Go: contracts written as Go functions (requires/ensures/assert/assume/loop intrinsics) in verif-tagged files of /repo; go/ssa symbolic execution with exact bit-vector integers and an update-list heap model generates one SMT query per obligation; z3 5.1.0 / z3 4.8.12 / cvc5 1.0 portfolio"}],
 "checks":checks,
 "notes":"See /verif/DESIGN.md. Fix commits in /repo start with 'fix:'; known findings and fixed entries are in /verif/known_findings.json.",
 "not_applicable":na,
}
json.dump(m,open('/verif/MANIFEST.json','w'),indent=1)
print(len(checks),"checks",len(na),"n/a")
