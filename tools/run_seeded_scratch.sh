#!/bin/sh
# usage: tools/run_seeded_scratch.sh <workers> [seed-id ...]
# Runs the seeded changes (default: all) against scratch git copies of /repo HEAD under /tmp (one per worker, removed
# at the end), side by side; results go to seeded/results/ like those of run_seeded.py, evidence to the scratch dir.
n="$1"; shift
cd /verif || exit 2
ids="$*"
[ -z "$ids" ] && ids=$(ls seeded | grep -E '^C[0-9]+-s[0-9]+$')
k=0
for i in $(seq 1 $n); do
  d=/tmp/rs$i; rm -rf $d; mkdir -p $d
  git -C /repo archive HEAD | tar -x -C $d
  (cd $d && git init -q . && git add -A >/dev/null 2>&1 && git -c user.email=s@x -c user.name=s commit -qm base)
  eval "w$i=''"
done
for s in $ids; do
  k=$(( k % n + 1 ))
  eval "w$k=\"\$w$k $s\""
done
for i in $(seq 1 $n); do
  eval "l=\$w$i"
  [ -n "$l" ] && python3 tools/run_seeded.py -R /tmp/rs$i $l > /tmp/rs$i.out 2>&1 &
done
wait
for i in $(seq 1 $n); do cat /tmp/rs$i.out; rm -rf /tmp/rs$i /tmp/rs$i.out; done
python3 tools/run_seeded.py --summary-only
