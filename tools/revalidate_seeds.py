#!/usr/bin/env python3
# re-validates every seed under /verif/seeded against /repo HEAD (tools/validate_seed.sh) and records the result in meta.json
import json, os, subprocess, sys
from concurrent.futures import ThreadPoolExecutor
ids = sorted(d for d in os.listdir('/verif/seeded') if os.path.isfile(f'/verif/seeded/{d}/patch.diff'))
def run(sid):
    d = f'/verif/seeded/{sid}'
    m = json.load(open(f'{d}/meta.json'))
    r = subprocess.run(['/verif/tools/validate_seed.sh', f'{d}/patch.diff', f'{d}/demo_test.go', m.get('demo_dir','.') or '.', '^'+m['demo_test']+'$'], capture_output=True, text=True)
    line = [l for l in r.stdout.splitlines() if l.startswith('RESULT')]
    res = line[-1] if line else 'RESULT none'
    head = subprocess.run(['git','-C','/repo','rev-parse','--short','HEAD'],capture_output=True,text=True).stdout.strip()
    m['confirmed_by_me']['result'] = res
    m['confirmed_by_me']['ok'] = r.returncode == 0
    m['confirmed_by_me']['against_repo_head'] = head
    json.dump(m, open(f'{d}/meta.json','w'), indent=1, ensure_ascii=False)
    return f'{sid}: {res}'
with ThreadPoolExecutor(max_workers=6) as ex:
    for out in ex.map(run, ids):
        print(out, flush=True)
